import RSocketModel.Proofs.C10Lemmas
/-!
# C10 — No per-stream state survives a terminated interaction
`Terminated` is, per interaction: request-response — response or error delivered, cancel processed;
stream — terminal signal, cancel; channel — *both* directions closed (the library's half-close
semantics, which the suite pins); all — connection lost.
-/
namespace RSocketModel.Engine

/-- **channels**: in every reachable state, a registered handler never has both directions
closed — the step that closes the second direction unregisters the stream and drops its partial
frame (this is the `chan_open` field of the state invariant, preserved by every entry point) -/
theorem c10_channel_both_closed_not_registered (first : Nat) (lp : Bool) (evs : List Ev) (sid oid : Nat) (s : Stream)
    (hreg : (sid, oid) ∈ (run (init first lp) evs).1.table) (ho : (run (init first lp) evs).1.obj oid = some s) :
    ¬ (s.sentComplete = true ∧ s.recvComplete = true) :=
  (wf_run evs (init first lp) (wf_init first lp)).chan_open (sid, oid) hreg s ho

/-- … and closing the second direction does unregister it, whichever direction closes last -/
theorem c10_channel_second_direction (st : State) (oid : Nat) (s : Stream) (r t : Bool)
    (h1 : s.recvComplete = true ∨ r = true) (h2 : s.sentComplete = true ∨ t = true) :
    (markChannel st oid s r t).isActive s.sid = false := by
  apply (markChannel_both st oid s r t _).1
  rcases h1 with h1 | h1 <;> rcases h2 with h2 | h2 <;> simp [h1, h2]

section endings
variable (st : State) (hc : st.closed = false) (sid oid : Nat) (s : Stream)
variable (hreg : st.oidOf sid = some oid) (ho : st.obj oid = some s) (hsid : s.sid = sid) (h0 : sid ≠ 0)
variable (hcache : st.cache.find? (·.1 == sid) = none)
include hc hreg ho hsid h0 hcache

/-- **request-response, requester**: the response (or an error) unregisters the stream -/
theorem c10_rr_requester_response (hk : s.kind = .rrReq) (data : List Nat) (code : Nat) (b : Behaviour) :
    (step st (.recv { ty := .payload, sid := sid, data := data, complete := true, next := !data.isEmpty } b)).1.isActive sid = false ∧
    (step st (.recv { ty := .error, sid := sid, code := code } b)).1.isActive sid = false := by
  subst hsid
  constructor <;>
  · simp [step, recvStep, hc, isFragmentable, cacheAppend, hcache, h0, isInitiate, hreg, ho, frameReceived, hk]
    split <;> simp [State.isActive, State.finish, State.setObj]

/-- **stream, requester**: a terminal signal (complete flag, bare complete, error) unregisters it -/
theorem c10_stream_requester_terminal (hk : s.kind = .stReq) (hsub : s.subscribed = true) (data : List Nat) (code : Nat) (b : Behaviour) :
    (step st (.recv { ty := .payload, sid := sid, data := data, complete := true, next := !data.isEmpty } b)).1.isActive sid = false ∧
    (step st (.recv { ty := .error, sid := sid, code := code } b)).1.isActive sid = false := by
  subst hsid
  constructor <;>
    simp [step, recvStep, hc, isFragmentable, cacheAppend, hcache, h0, isInitiate, hreg, ho, frameReceived, hk, hsub,
      State.isActive, State.finish]

/-- **responders**: CANCEL from the peer unregisters a request-response or stream responder -/
theorem c10_responder_cancelled (hk : s.kind = .rrResp ∨ s.kind = .stResp) (b : Behaviour) :
    (step st (.recv { ty := .cancel, sid := sid } b)).1.isActive sid = false := by
  subst hsid
  rcases hk with hk | hk
  · simp [step, recvStep, hc, isFragmentable, cacheAppend, hcache, h0, isInitiate, hreg, ho, frameReceived, hk]
    split <;> simp [State.isActive, State.finish, State.setObj]
  · simp [step, recvStep, hc, isFragmentable, cacheAppend, hcache, h0, isInitiate, hreg, ho, frameReceived, hk,
      State.isActive, State.finish]

end endings

/-- **local endings**: the requester's cancel, the responder's terminal signal, the done-callback
of a request-response (response sent / cancel sent) each unregister the stream -/
theorem c10_local_endings (st : State) (oid : Nat) (s : Stream) (ho : st.obj oid = some s) :
    (s.kind = .stReq → (step st (.subCancel oid)).1.isActive s.sid = false) ∧
    (s.kind = .stResp → (step st (.pubComplete oid)).1.isActive s.sid = false ∧ (step st (.pubError oid)).1.isActive s.sid = false ∧
      ∀ d, (step st (.pubNext oid d true)).1.isActive s.sid = false) ∧
    (s.kind = .rrResp → s.cb = true → (step st (.cbRRResp oid)).1.isActive s.sid = false) ∧
    (s.kind = .rrReq → s.cb = true → s.fut = .cancelled → s.responseReceived = false →
      (step st (.cbRRReq oid)).1.isActive s.sid = false) := by
  refine ⟨?_, ?_, ?_, ?_⟩
  · intro hk; simp only [step, apiStep, ho, hk]; exact (isActive_finish _ _).1
  · intro hk
    refine ⟨?_, ?_, ?_⟩
    · simp only [step, apiStep, ho, hk]; exact (isActive_finish _ _).1
    · simp only [step, apiStep, ho, hk]; exact (isActive_finish _ _).1
    · intro d; simp only [step, apiStep, ho, hk, if_true]; exact (isActive_finish _ _).1
  · intro hk hcb
    simp only [step, apiStep, ho, hk, hcb, beq_self_eq_true, Bool.and_self, if_true]
    split <;> exact (isActive_finish _ _).1
  · intro hk hcb hf hr
    simp only [step, apiStep, ho, hk, hcb, hf, hr, beq_self_eq_true, Bool.and_self, Bool.not_false, if_true]
    exact (isActive_finish _ _).1

/-- **connection loss** terminates everything: nothing stays registered -/
theorem c10_lost_clears (st : State) (h : WF st) (hc : st.closed = false) : (step st .lost).1.table = [] :=
  (lost_spec st h hc).2.1

/-- **the id can be used again**: once a stream id is not registered (and has no partial frame),
a new request on it is accepted, not rejected -/
theorem c10_id_reusable (st : State) (hc : st.closed = false) (sid : Nat) (h0 : sid ≠ 0) (hna : st.isActive sid = false)
    (hcache : st.cache.find? (·.1 == sid) = none) (data : List Nat) :
    (step st (.recv { ty := .requestFnf, sid := sid, data := data } .ok)).2 = [.handlerCall .requestFnf data] ∧
    (step st (.recv { ty := .requestResponse, sid := sid, data := data } .futPending)).2 =
      [.handlerCall .requestResponse data, .created st.heap.length sid] := by
  constructor <;>
    simp [step, recvStep, hc, isFragmentable, cacheAppend, hcache, isInitiate, handleByType, hna, h0, State.emit, State.register]

end RSocketModel.Engine
