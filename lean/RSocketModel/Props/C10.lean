import RSocketModel.Engine.Step
/-! # C10 — placeholder until the proofs land -/
namespace RSocketModel.Engine
theorem c10_placeholder : (init 1).closed = false := rfl
end RSocketModel.Engine
