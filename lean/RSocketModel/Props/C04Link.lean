import RSocketModel.Props.C04Transport
import RSocketModel.Props.C02
/-!
# C01 / C02 / C04 — one TCP link, writer to receiver

Composition of the codec (`c02_decode_encode`, `c02_partial_write`), the parser (`c04_frames_exact`)
and the transport loop (`c04_tcp_reads_then_eof`): the writes `TransportTCP.send_frame` performs for
a sequence of frames, delivered to the peer's `TransportTCP` as *any* sequence of non-empty reads
followed by the end of the stream, are dispatched by the peer's receiver loop as exactly those
frames.
-/
namespace RSocketModel.Transport
open RSocketModel.Parser RSocketModel.Codec

/-- `parse_or_ignore` as the parser's per-frame decoder: a frame, or nothing (ignored / invalid
marker are not frames) -/
def parseC (body : Bytes) : List Frame :=
  match decode body with
  | .frame f => [f]
  | _ => []

/-- everything the sender's transport writes for a list of frames, in order -/
def writesOf (fs : List Frame) : List Bytes := fs.flatMap tcpWrites

theorem writesOf_flatten (fs : List Frame) :
    (writesOf fs).flatten = ((fs.map encode).map prefixed).flatten := by
  induction fs with
  | nil => rfl
  | cons f fs ih =>
    simp only [writesOf, List.flatMap_cons, List.flatten_append, List.map_cons, List.flatten_cons] at ih ⊢
    rw [c02_partial_write f, ih]
    rfl

/-- **one TCP link, end to end.** Frames within the wire format's ranges whose encodings fit the
24-bit length prefix; the bytes the sender's `TransportTCP` writes for them; any cut of those bytes
into non-empty reads at the receiver, then the end of the stream: the receiver's loop dispatches
exactly the frames (PAYLOAD with content carrying NEXT), in order, each once, and ends normally. -/
theorem c04_tcp_link_exact (fs : List Frame) (hwf : ∀ f ∈ fs, WF f) (hlen : ∀ f ∈ fs, (encode f).length < 2 ^ 24)
    (reads : List Bytes) (hne : ∀ c ∈ reads, c ≠ []) (hbytes : reads.flatten = (writesOf fs).flatten)
    (later : List Read) :
    tcpLoop parseC [] (reads.map .data ++ .eof :: later) = (fs.map canon, .closed) := by
  have key : ∀ gs : List Frame, (∀ g ∈ gs, WF g) → (gs.map encode).flatMap parseC = gs.map canon := by
    intro gs
    induction gs with
    | nil => intro _; rfl
    | cons g gs ih =>
      intro hg
      have hf : parseC (encode g) = [canon g] := by
        simp [parseC, c02_decode_encode g (hg g (by simp))]
      simp only [List.map_cons, List.flatMap_cons, hf, List.singleton_append]
      rw [ih (fun x hx => hg x (by simp [hx]))]
  have h := c04_tcp_frames_exact parseC (fs.map encode)
    (by intro b hb; simp only [List.mem_map] at hb; obtain ⟨f, hf, rfl⟩ := hb; exact hlen f hf)
    reads hne (by rw [hbytes, writesOf_flatten]) later
  rw [h, key fs hwf]

/-- non-vacuity: a CANCEL and a REQUEST_N, written and read back in three odd pieces -/
example : (writesOf [.cancel 3 false, .requestN 5 false 7]).flatten =
    [0, 0, 6, 0, 0, 0, 3, 0x24, 0, 0, 0, 10, 0, 0, 0, 5, 0x20, 0, 0, 0, 0, 7] := by decide

end RSocketModel.Transport
