import RSocketModel.Props.C02
import RSocketModel.Gen.ParseOrIgnoreFn
/-!
# C02 / C04 / C12 — the decoder's control flow is the source's `parse_or_ignore`

`Codec.decode` decides between *a frame*, *ignored* (`None`) and *invalid* (an exception, which the
stream parser turns into the invalid-frame marker). That decision — what is inside the `try`, when
the IGNORE flag swallows a failure, when `is_frame_to_ignore` applies — is proved to be the control
flow of `rsocket/frame.py: parse_or_ignore` as compiled from its AST on every run
(`Gen/ParseOrIgnoreFn.lean`), as a function of five facts about the buffer.
-/
namespace RSocketModel.Codec

def outcomeOf : Decoded → Option Gen.ParseOutcome
  | .frame _ => some .frame
  | .ignored => some .none
  | .invalid => some .raised
  | .outOfDomain => none

/-- the five facts, read off the model's own header / body parsers -/
def isShort (buf : Bytes) : Bool := (parseHeader buf).isNone
def knownType (buf : Bytes) : Bool :=
  match parseHeader buf with | some (h, _) => !(decide (h.ty = 0 ∨ 14 < h.ty)) | none => false
def bodyParses (buf : Bytes) : Bool :=
  match parseHeader buf with
  | some (h, rest) => (match parseBody h rest with | .ok _ => true | _ => false)
  | none => false
def ignoreFlag (buf : Bytes) : Bool :=
  match parseHeader buf with | some (h, _) => h.ign | none => false
def toIgnore (buf : Bytes) : Bool :=
  match parseHeader buf with
  | some (h, rest) => (match parseBody h rest with | .ok f => decide (f.ty = 12 ∧ f.sid ≠ 0) | _ => false)
  | none => false

/-- **`decode`'s control flow is the source's**, for every byte string inside the modelled domain. -/
theorem c02_decode_control_matches_source (buf : Bytes) (hood : decode buf ≠ .outOfDomain) :
    outcomeOf (decode buf) =
      some (Gen.parse_or_ignore (isShort buf) (knownType buf) (bodyParses buf) (ignoreFlag buf) (toIgnore buf)) := by
  unfold decode at hood ⊢
  unfold isShort knownType bodyParses ignoreFlag toIgnore
  rcases hph : parseHeader buf with _ | ⟨h, rest⟩
  · simp [outcomeOf, Gen.parse_or_ignore]
  · simp only [hph] at hood ⊢
    by_cases hty : h.ty = 0 ∨ 14 < h.ty
    · simp [hty, outcomeOf, Gen.parse_or_ignore]
    · simp only [hty, if_false] at hood ⊢
      rcases hpb : parseBody h rest with f | _ | _
      · simp only [hpb] at hood ⊢
        by_cases hig : f.ty = 12 ∧ f.sid ≠ 0
        · simp [hig, outcomeOf, Gen.parse_or_ignore]
        · simp [hig, outcomeOf, Gen.parse_or_ignore]
      · simp only [hpb] at hood ⊢
        cases hi : h.ign <;> simp [hi, outcomeOf, Gen.parse_or_ignore]
      · simp [hpb] at hood

/-- read off the compiled function: a frame is returned only when the body parsed — a body that
fails to parse never yields a frame, IGNORE flag or not (the statement two seeded changes broke) -/
theorem c02_source_no_frame_from_a_failed_parse (short known ign toIg : Bool) :
    Gen.parse_or_ignore short known false ign toIg ≠ .frame := by
  cases short <;> cases known <;> cases ign <;> cases toIg <;> decide

/-- read off the compiled function: the IGNORE flag only ever turns a failure into silence; it
never suppresses a frame that parsed -/
theorem c02_source_ignore_flag_only_on_failure (ign : Bool) :
    Gen.parse_or_ignore false true true ign false = .frame := by
  cases ign <;> rfl

end RSocketModel.Codec
