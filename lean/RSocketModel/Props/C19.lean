import RSocketModel.Proofs.C19Lemmas
/-!
# C19 — Routed dispatch is exact and the authentication gate cannot be bypassed
Property theorems only (decision logic stated outright).
-/
namespace RSocketModel.Routing
open RSocketModel.Composite

/-- **exact route**: a request whose gate is open and whose first route tag is registered for its
interaction type runs exactly that handler -/
theorem c19_exact_route (r : Router) (v) (ty : ReqType) (items : List Item) (route : Bytes) (h : Handler)
    (hr : requireRoute items = some route) (hg : gateOpen v route items = true)
    (hl : lookup (r.routes ty) route = some h) :
    dispatch r v ty (some items) = .ran h.id (collectArgs h.params) := by
  rw [dispatch_eq r v ty items route hr, hg]; simp [routeTo, hl]

/-- **unknown-route fallback** of the same interaction type -/
theorem c19_unknown_fallback (r : Router) (v) (ty : ReqType) (items : List Item) (route : Bytes) (u : Handler)
    (hr : requireRoute items = some route) (hg : gateOpen v route items = true)
    (hl : lookup (r.routes ty) route = none) (hu : r.unknown ty = some u) :
    dispatch r v ty (some items) = .ran u.id (collectArgs u.params) := by
  rw [dispatch_eq r v ty items route hr, hg]; simp [routeTo, hl, hu]

/-- **otherwise the request alone fails** -/
theorem c19_error_is_local (r : Router) (v) (ty : ReqType) (items : List Item) (route : Bytes)
    (hr : requireRoute items = some route)
    (hl : lookup (r.routes ty) route = none) (hu : r.unknown ty = none) :
    dispatch r v ty (some items) = .error := by
  rw [dispatch_eq r v ty items route hr]; simp [routeTo, hl, hu]

/-- **only handlers of the request's own interaction type can run** -/
theorem c19_only_own_type (r : Router) (v) (ty : ReqType) (items : Option (List Item)) (hid : Nat) (args : List Arg)
    (h : dispatch r v ty items = .ran hid args) :
    (∃ p ∈ r.routes ty, p.2.id = hid ∧ requireRoute (items.getD []) = some p.1) ∨ (∃ u, r.unknown ty = some u ∧ u.id = hid) := by
  cases items with
  | none => simp [dispatch] at h
  | some items =>
    cases hr : requireRoute items with
    | none => simp [dispatch, hr] at h
    | some route =>
      rw [dispatch_eq r v ty items route hr] at h
      split at h
      · unfold routeTo at h
        cases hl : lookup (r.routes ty) route with
        | some hd =>
          simp only [hl, Outcome.ran.injEq] at h
          left
          unfold lookup at hl
          cases hf : (r.routes ty).find? (·.1 == route) with
          | none => simp [hf] at hl
          | some p =>
            simp only [hf, Option.map_some, Option.some.injEq] at hl
            have hm := List.mem_of_find?_eq_some hf
            have hp := List.find?_some hf
            simp only [beq_iff_eq] at hp
            exact ⟨p, hm, by rw [hl]; exact h.1, by simp [hr, hp]⟩
        | none =>
          simp only [hl] at h
          cases hu : r.unknown ty with
          | none => simp [hu] at h
          | some u =>
            simp only [hu, Outcome.ran.injEq] at h
            exact Or.inr ⟨u, rfl, h.1⟩
      · exact absurd h (by simp)

/-- **authentication gate**: with a verifier configured, a request that carries no authentication
entry, or whose entry the verifier rejects, runs no route handler — for every interaction type,
every route table and every position of the entries in the composite. -/
theorem c19_auth_gate (r : Router) (v : Bytes → Item → Bool) (ty : ReqType) (items : Option (List Item))
    (hrej : ∀ its route, items = some its → requireRoute its = some route →
      (firstAuth its = none ∨ ∃ a, firstAuth its = some a ∧ v route a = false)) :
    dispatch r (some v) ty items = .error := by
  cases items with
  | none => rfl
  | some its =>
    cases hr : requireRoute its with
    | none => simp [dispatch, hr]
    | some route =>
      rw [dispatch_eq r (some v) ty its route hr]
      have := hrej its route rfl hr
      rcases this with h | ⟨a, ha, hv⟩
      · simp [gateOpen, h]
      · simp [gateOpen, ha, hv]

/-- **parameters**: a parameter receives the parsed composite metadata iff it is named
`composite_metadata` or annotated `CompositeMetadata`; otherwise the payload, passed through the
deserializer iff it carries an annotation other than `Payload` -/
theorem c19_params (ps : List Param) (i : Nat) (hi : i < ps.length) :
    ((collectArgs ps)[i]'(by simpa [collectArgs] using hi) = .composite ↔
      (ps[i].named_composite_metadata = true ∨ ps[i].annot = .compositeMetadata)) ∧
    ((collectArgs ps)[i]'(by simpa [collectArgs] using hi) = .deserialized ↔
      (ps[i].named_composite_metadata = false ∧ ps[i].annot = .other)) := by
  simp only [collectArgs, List.getElem_map]
  cases hn : ps[i].named_composite_metadata <;> cases ha : ps[i].annot <;> simp

/-- non-vacuity: a rejected request with the route entry after the authentication entry -/
example : dispatch ⟨fun _ => [([114], ⟨1, []⟩)], fun _ => some ⟨2, []⟩⟩ (some fun _ a => a == .authBearer [103])
    .stream (some [.authBearer [98], .routing [[114]]]) = .error := by decide

end RSocketModel.Routing
