import RSocketModel.Codec
/-!
Model of the client life-cycle of `rsocket/rsocket_client.py` (`connect`, `_connect_new_transport`,
`_reconnect_listener`, `_close`) together with the sender gate of `rsocket_base.py` (`_sender` awaits
the transport future, then sends the head of the queue while the server is alive), and of
`frame_builders.to_setup_frame` / `datetime_helpers.to_milliseconds`.

Code modelled is the one after fixes F1 (milliseconds), F5 (liveness reset on connect) and F6
(SETUP queued before the transport future is resolved).
-/
namespace RSocketModel.Client

/-- `to_milliseconds` of a `timedelta` given in microseconds: exact for whole milliseconds;
in between, `round()` of a float (nearest, ties to even) — only the whole-millisecond case is
used by the theorems -/
def toMillis (us : Nat) : Nat := (us + 500) / 1000

structure Config where
  keepAliveUs : Nat
  maxLifetimeUs : Nat
  dataEnc : Bytes
  mdEnc : Bytes
  honorLease : Bool
  setupData : Bytes
  setupMd : Bytes
deriving Repr

/-- `to_setup_frame` -/
def setupFrame (c : Config) : Codec.Frame :=
  .setup 0 false c.honorLease false 1 0 (toMillis c.keepAliveUs) (toMillis c.maxLifetimeUs) []
    c.mdEnc c.dataEnc c.setupMd c.setupData

inductive Tag where
  | setup
  | req (id : Nat)
  | keepalive
  | other
deriving Repr, DecidableEq

structure State where
  queue : List Tag := []
  gate : Bool := false            -- `_next_transport` resolved: the sender task may proceed
  alive : Bool := true            -- `_is_server_alive`
  armed : Bool := false           -- the sender task has passed its `while is_server_alive()` check and waits for a frame
  nextId : Nat := 1               -- id the next request gets
  wire : List Tag := []           -- frames handed to the current transport
  epochs : List (List Tag) := []  -- what earlier transports were handed
  pending : List Nat := []        -- requests registered in the stream table
  failed : List Nat := []         -- requests failed with a connection error
  connects : Nat := 0
  taken : Nat := 0                -- transports obtained from the provider so far (they are numbered 0, 1, ...)
  current : Option Nat := none    -- the transport `_next_transport` is resolved with (`none`: the future is pending)
  closedT : List Nat := []        -- transports the client has closed, in order
deriving Repr

inductive Ev where
  | connect            -- `connect()`: liveness reset, internals reset (new queue, ids from 1), SETUP queued first
  | closeForReconnect  -- `_close(reconnect=True)`: tasks stopped, pending requests failed, transport closed
  | providerYields     -- transport taken from the provider, future resolved
  | request            -- any request: allocate, register, queue
  | response (id : Nat)
  | keepaliveTick
  | queueOther
  | senderStep
  | keepaliveTimeout
deriving Repr, DecidableEq

def step (s : State) : Ev → State
  | .connect =>
    { s with queue := [.setup], gate := false, alive := true, armed := false, nextId := 1, wire := [],
             epochs := if s.connects = 0 then s.epochs else s.epochs ++ [s.wire], connects := s.connects + 1 }
  | .closeForReconnect =>
    -- `_close_transport`: the transport the (resolved) future holds is closed; the listener then installs a fresh future
    { s with gate := false, armed := false, failed := s.failed ++ s.pending, pending := [],
             closedT := s.closedT ++ s.current.toList, current := none }
  | .providerYields => { s with gate := true, armed := s.alive, current := some s.taken, taken := s.taken + 1 }
  | .request => { s with queue := s.queue ++ [.req s.nextId], pending := s.pending ++ [s.nextId], nextId := s.nextId + 2 }
  | .response id => { s with pending := s.pending.filter (· != id) }
  | .keepaliveTick => { s with queue := s.queue ++ [.keepalive] }
  | .queueOther => { s with queue := s.queue ++ [.other] }
  | .senderStep =>
    -- the liveness flag is looked at once per loop iteration, *before* waiting for the next frame
    match s.gate && s.armed, s.queue with
    | true, h :: t => { s with queue := t, wire := s.wire ++ [h], armed := s.alive }
    | _, _ => s
  | .keepaliveTimeout => { s with alive := false }

def run (s : State) (evs : List Ev) : State := evs.foldl step s

/-- what the code did before fix F6: SETUP was queued (at the front) only after
`transport.connect()` had returned, while the sender gate opened before it -/
def stepPreF6 (s : State) : Ev ⊕ Unit → State
  | .inl .connect => { s with queue := [], gate := false, nextId := 1, wire := [], connects := s.connects + 1 }
  | .inr () => { s with queue := .setup :: s.queue }      -- `transport.connect()` returned
  | .inl e => step s e

end RSocketModel.Client
