import RSocketModel.Basic
import RSocketModel.Gen.Tables
/-!
Model of the extension metadata codecs: `rsocket/helpers.py` (`serialize_well_known_encoding`,
`parse_well_known_encoding`), `frame_helpers.serialize_128max_value`, `extensions/composite_metadata.py`,
`tagging.py`/`routing.py`, `stream_data_mimetype.py`, `authentication.py`, `authentication_content.py`.

A MIME type is represented by its *name*; whether it travels as a well-known id or as a
length-prefixed name is decided by the (regenerated) table, exactly as the code does with
`get_by_name`.
-/
namespace RSocketModel.Composite

abbrev Table := List (Nat × Bytes)

def lookupId (t : Table) (name : Bytes) : Option Nat := (t.find? (·.2 == name)).map (·.1)
def lookupName (t : Table) (id : Nat) : Option Bytes := (t.find? (·.1 == id)).map (·.2)

/-- `serialize_well_known_encoding` for a name given as bytes; `none` = `RSocketMimetypeTooLong` -/
def encodeMime (t : Table) (name : Bytes) : Option Bytes :=
  match lookupId t name with
  | some id => some [UInt8.ofNat (128 + id % 128)]
  | none => if 128 < name.length then none else some (UInt8.ofNat ((name.length + 127) % 128) :: name)

inductive R (α : Type) where
  | ok (a : α)
  | fail
deriving Repr

def R.bind {α β : Type} : R α → (α → R β) → R β
  | .ok a, f => f a
  | .fail, _ => .fail

instance : Monad R where
  pure := R.ok
  bind := R.bind

/-- `parse_well_known_encoding`: returns the name and the rest of the buffer -/
def decodeMime (t : Table) (buf : Bytes) : R (Bytes × Bytes) :=
  match buf with
  | [] => .fail
  | b :: rest =>
    if 128 ≤ b.toNat then
      match lookupName t (b.toNat - 128) with
      | some name => .ok (name, rest)
      | none => .fail                                   -- RSocketUnknownMimetype / UnknownAuthType
    else .ok (rest.take (b.toNat + 1), rest.drop (b.toNat + 1))

/-! ### tags (routing) -/

/-- `TaggingMetadata._serialize_tags`; `none` = tag longer than 255 bytes -/
def encodeTags : List Bytes → Option Bytes
  | [] => some []
  | tag :: rest =>
    if 255 < tag.length then none
    else (encodeTags rest).map fun r => UInt8.ofNat tag.length :: tag ++ r

/-- `TaggingMetadata.parse` -/
def decodeTags (buf : Bytes) : List Bytes :=
  match buf with
  | [] => []
  | b :: rest => rest.take b.toNat :: decodeTags (rest.drop b.toNat)
termination_by buf.length
decreasing_by simp only [List.length_drop, List.length_cons]; omega

/-! ### list of MIME types (accept-mime-types) -/

def encodeMimes (t : Table) : List Bytes → Option Bytes
  | [] => some []
  | m :: rest => do
    let a ← encodeMime t m
    let b ← encodeMimes t rest
    pure (a ++ b)

def decodeMimes (t : Table) (buf : Bytes) : R (List Bytes) :=
  if _h : buf.length = 0 then .ok []
  else
    match decodeMime t buf with
    | .fail => .fail
    | .ok (name, rest) =>
      if _hl : rest.length < buf.length then
        (decodeMimes t rest).bind fun l => .ok (name :: l)
      else .fail
termination_by buf.length

/-! ### composite entries -/

inductive Item where
  | raw (mime : Bytes) (content : Bytes)        -- any MIME type without a dedicated item class
  | routing (tags : List Bytes)
  | dataMime (mime : Bytes)
  | acceptMimes (mimes : List Bytes)
  | authSimple (user pass : Bytes)
  | authBearer (token : Bytes)
deriving Repr, DecidableEq

/-- the MIME names under which the dedicated item classes are registered (regenerated) -/
def nameRouting : Bytes := Gen.nameRouting
def nameMime : Bytes := Gen.nameMime
def nameAccept : Bytes := Gen.nameAccept
def nameAuth : Bytes := Gen.nameAuth
def nameSimple : Bytes := Gen.nameSimple
def nameBearer : Bytes := Gen.nameBearer

def Item.mime : Item → Bytes
  | .raw m _ => m
  | .routing _ => nameRouting
  | .dataMime _ => nameMime
  | .acceptMimes _ => nameAccept
  | .authSimple .. => nameAuth
  | .authBearer _ => nameAuth

/-- each item class's `serialize` -/
def Item.content (mt at_ : Table) : Item → Option Bytes
  | .raw _ c => some c
  | .routing tags => encodeTags tags
  | .dataMime m => encodeMime mt m
  | .acceptMimes ms => encodeMimes mt ms
  | .authSimple u p => (encodeMime at_ nameSimple).map fun h => h ++ beBytes 2 u.length ++ u ++ p
  | .authBearer tok => (encodeMime at_ nameBearer).map fun h => h ++ tok

/-- `CompositeMetadata.serialize` -/
def encode (mt at_ : Table) : List Item → Option Bytes
  | [] => some []
  | it :: rest => do
    let h ← encodeMime mt it.mime
    let c ← it.content mt at_
    let r ← encode mt at_ rest
    pure (h ++ beBytes 3 c.length ++ c ++ r)

/-- each item class's `parse`, chosen by MIME name (`metadata_item_factory`) -/
def decodeItem (mt at_ : Table) (mime content : Bytes) : R Item :=
  if mime == nameRouting then .ok (.routing (decodeTags content))
  else if mime == nameMime then (decodeMime mt content).bind fun r => .ok (.dataMime r.1)
  else if mime == nameAccept then (decodeMimes mt content).bind fun l => .ok (.acceptMimes l)
  else if mime == nameAuth then
    (decodeMime at_ content).bind fun r =>
      if r.1 == nameSimple then
        if r.2.length < 2 then .fail       -- `struct.unpack('>I', b'\\x00\\x00' + buffer[:2])` needs two bytes
        else .ok (.authSimple ((r.2.drop 2).take (beVal (r.2.take 2))) ((r.2.drop 2).drop (beVal (r.2.take 2))))
      else if r.1 == nameBearer then .ok (.authBearer r.2)
      else .fail
  else .ok (.raw mime content)

/-- `CompositeMetadata.parse` -/
def decode (mt at_ : Table) (buf : Bytes) : R (List Item) :=
  if _h : buf.length = 0 then .ok []
  else
    match decodeMime mt buf with
    | .fail => .fail
    | .ok (mime, rest) =>
      if _h3 : rest.length < 3 then .fail          -- `unpack_24bit` on a short buffer raises
      else
        let len := beVal (rest.take 3)
        let body := (rest.drop 3).take len
        let rest' := (rest.drop 3).drop len
        if _hl : rest'.length < buf.length then
          (decodeItem mt at_ mime body).bind fun it => (decode mt at_ rest').bind fun l => .ok (it :: l)
        else .fail
termination_by buf.length
decreasing_by
  simp only [List.length_drop, rest', len] at _hl ⊢
  omega

end RSocketModel.Composite
