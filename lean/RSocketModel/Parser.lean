import RSocketModel.Basic
/-!
Model of `rsocket/frame_parser.py : FrameParser.receive_data`.

The per-frame decoder is a *parameter* `parse : Bytes → List β` (`[]` = frame deliberately
ignored, one element = a frame or the invalid-frame marker), so every theorem holds for every
decoder, in particular for `Codec.parseOrIgnore`.
-/
namespace RSocketModel.Parser

/-- The `while` loop with `header_length = 3`: repeatedly cut a length-prefixed frame off the
front of the buffer. Returns the items yielded and the residual buffer. -/
def drain {β : Type} (parse : Bytes → List β) (buf : Bytes) : List β × Bytes :=
  if _h3 : buf.length < 3 then ([], buf)
  else
    let len := beVal (buf.take 3)
    if _hlen : buf.length < len + 3 then ([], buf)
    else
      let r := drain parse (buf.drop (len + 3))
      (parse ((buf.drop 3).take len) ++ r.1, r.2)
termination_by buf.length
decreasing_by simp only [List.length_drop]; omega

/-- One `receive_data(chunk)` call on a byte-stream transport: buffer state in, items and new
buffer state out. -/
def feed {β : Type} (parse : Bytes → List β) (buf chunk : Bytes) : List β × Bytes :=
  drain parse (buf ++ chunk)

/-- A whole connection: successive reads. -/
def feedAll {β : Type} (parse : Bytes → List β) : Bytes → List Bytes → List β × Bytes
  | buf, [] => ([], buf)
  | buf, c :: cs =>
    let r := feed parse buf c
    let r' := feedAll parse r.2 cs
    (r.1 ++ r'.1, r'.2)

/-- The loop with `header_length = 0` (message transports), `len = len(data)`; `none` = the
loop did not terminate within `fuel` iterations. Transcribes
`while total >= 0 and total > 0: if total < len: return; parse(buf[:len]); buf = buf[len:]`. -/
def msgLoop {β : Type} (parse : Bytes → List β) (len : Nat) : Nat → Bytes → Option (List β × Bytes)
  | 0, _ => none
  | fuel + 1, buf =>
    if buf.length = 0 then some ([], buf)
    else if buf.length < len then some ([], buf)
    else (msgLoop parse len fuel (buf.drop len)).map fun r => (parse (buf.take len) ++ r.1, r.2)

/-- One `receive_data(msg, 0)` call. -/
def feedMsg {β : Type} (parse : Bytes → List β) (buf msg : Bytes) : Option (List β × Bytes) :=
  msgLoop parse msg.length ((buf ++ msg).length + 1) (buf ++ msg)

/-- wire form of one frame on a byte-stream transport -/
def prefixed (f : Bytes) : Bytes := beBytes 3 f.length ++ f

end RSocketModel.Parser
