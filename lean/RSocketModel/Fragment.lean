import RSocketModel.Basic
import RSocketModel.Gen.Constants
/-!
Model of `rsocket/frame_fragmenter.py` (`FrameFragmenter.__iter__`), `rsocket/frame.py`
(`new_frame_fragment`, `get_header_length`, wire size of a fragment) and
`rsocket/frame_fragment_cache.py` (`FrameFragmentCache`).

Generic in the element type `α` (bytes in the driver), since no theorem depends on byte values.
-/
namespace RSocketModel.Fragment

/-- `Fragment(data, metadata, is_last, is_first)` -/
structure Frag (α : Type) where
  md : List α
  d : List α
  isLast : Bool
  isFirst : Bool
deriving Repr, DecidableEq

/-- `_get_next_fragment_body_size` -/
def sz (first next : Nat) (isFirst : Bool) : Nat := if isFirst then first else next

/-- First `while True` loop: full-size metadata-only fragments. Returns the fragments yielded,
`last_metadata_fragment`, and the value of `_is_first` on exit. `dEmpty` is `_data_length == 0`. -/
def mdLoop {α : Type} (first next : Nat) (dEmpty : Bool) (isFirst : Bool) (md : List α) :
    List (Frag α) × List α × Bool :=
  if _h : sz first next isFirst = 0 ∨ md.length < sz first next isFirst then ([], md, isFirst)
  else
    let r := mdLoop first next dEmpty false (md.drop (sz first next isFirst))
    ({ md := md.take (sz first next isFirst), d := [],
       isLast := dEmpty && (md.length == sz first next isFirst), isFirst := isFirst } :: r.1, r.2)
termination_by md.length
decreasing_by simp only [List.length_drop]; omega

/-- Last `while True` loop: data-only fragments of the non-first size (entered with data left). -/
def dLoop {α : Type} (next : Nat) (d : List α) : List (Frag α) :=
  if _h : next = 0 ∨ d.length = 0 then []
  else
    { md := [], d := d.take next, isLast := d.length ≤ next, isFirst := false } ::
      (if d.length ≤ next then [] else dLoop next (d.drop next))
termination_by d.length
decreasing_by simp only [List.length_drop]; omega

/-- `FrameFragmenter.__iter__` with `first = first_fragment_size_bytes`, `next = next_frame_header_size`. -/
def fragments {α : Type} (first next : Nat) (md d : List α) : List (Frag α) :=
  if md.length = 0 ∧ d.length = 0 then [{ md := [], d := [], isLast := true, isFirst := true }]
  else
    let r := mdLoop first next (d.length == 0) true md
    let lastMd := r.2.1
    let isFirst := r.2.2
    let expected := sz first next isFirst - lastMd.length
    let dfrag := d.take expected
    let rest := d.drop expected
    let yieldMixed : Bool := decide (0 < lastMd.length) || decide (0 < dfrag.length)
    let mixed : List (Frag α) :=
      if yieldMixed then [{ md := lastMd, d := dfrag, isLast := rest.length == 0, isFirst := isFirst }] else []
    let tail : List (Frag α) :=
      if (yieldMixed && rest.length == 0) || dfrag.length == 0 then [] else dLoop next rest
    r.1 ++ mixed ++ tail

/-- budgets computed in `FrameFragmenter.__init__` -/
def lpBytes (lp : Bool) : Nat := if lp then 3 else 0
def firstBudget (hdr F : Nat) (lp : Bool) : Nat := F - hdr - lpBytes lp
def nextBudget (F : Nat) (lp : Bool) : Nat := F - 6 - lpBytes lp

/-- `frame_header_length[frame.__class__]` from the regenerated table (0 = not fragmentable). -/
def headerOf (ty : Nat) : Nat := ((Gen.fragHeaderLength.find? (·.1 == ty)).map (·.2)).getD 0

/-- `data_to_fragments_if_required` for a configured fragment size. -/
def fragmentsFor {α : Type} (ty F : Nat) (lp : Bool) (md d : List α) : List (Frag α) :=
  fragments (firstBudget (headerOf ty) F lp) (nextBudget F lp) md d

/-! ### Wire frames of fragments (`new_frame_fragment` + serialisation canonical form) -/

structure FFrame (α : Type) where
  ty : Nat
  sid : Nat
  n : Nat            -- initial request-n (REQUEST_STREAM / REQUEST_CHANNEL), 0 otherwise
  follows : Bool
  complete : Bool
  next : Bool        -- PAYLOAD only
  md : List α
  d : List α
deriving Repr, DecidableEq

def hasN (ty : Nat) : Bool := ty == Gen.tyRequestStream || ty == Gen.tyRequestChannel

/-- A fragmentable frame as handed to the send queue. -/
structure Base (α : Type) where
  ty : Nat
  sid : Nat
  n : Nat
  complete : Bool
  md : List α
  d : List α
deriving Repr, DecidableEq

/-- `new_frame_fragment`, followed by what serialisation + parsing make of the flags: `next` is
recomputed from content on PAYLOAD frames; `complete` is only set on the last fragment. -/
def toFrame {α : Type} (b : Base α) (f : Frag α) : FFrame α :=
  let ty := if f.isFirst then b.ty else Gen.tyPayload
  { ty := ty, sid := b.sid,
    n := if hasN ty then b.n else 0,
    follows := !f.isLast,
    complete := if f.isLast then b.complete else false,
    next := ty == Gen.tyPayload && (decide (0 < f.md.length) || decide (0 < f.d.length)),
    md := f.md, d := f.d }

def toFrames {α : Type} (b : Base α) (F : Nat) (lp : Bool) : List (FFrame α) :=
  (fragmentsFor b.ty F lp b.md b.d).map (toFrame b)

/-- What the receiver should obtain: the original frame in canonical wire form. -/
def canonBase {α : Type} (b : Base α) : FFrame α :=
  { ty := b.ty, sid := b.sid, n := if hasN b.ty then b.n else 0, follows := false,
    complete := b.complete,
    next := b.ty == Gen.tyPayload && (decide (0 < b.md.length) || decide (0 < b.d.length)),
    md := b.md, d := b.d }

/-- bytes on the wire: header (6, +4 with request-n), optional 3-byte metadata length, content,
optional 3-byte frame length prefix -/
def wireHeader (ty : Nat) : Nat := if hasN ty then 10 else 6
def wireSize {α : Type} (f : FFrame α) (lp : Bool) : Nat :=
  wireHeader f.ty + (if f.md.length = 0 then 0 else 3 + f.md.length) + f.d.length + lpBytes lp

/-! ### `FrameFragmentCache` -/

abbrev Cache (α : Type) := List (Nat × FFrame α)

def Cache.get? {α : Type} (c : Cache α) (sid : Nat) : Option (FFrame α) := (c.find? (·.1 == sid)).map (·.2)
def Cache.erase {α : Type} (c : Cache α) (sid : Nat) : Cache α := c.filter (·.1 != sid)
def Cache.set {α : Type} (c : Cache α) (sid : Nat) (f : FFrame α) : Cache α := (sid, f) :: c.erase sid

inductive AppendResult (α : Type) where
  | pending                       -- `None`: more fragments expected
  | frame (f : FFrame α)          -- complete frame
  | differentType                 -- `RSocketFrameFragmentDifferentType`
deriving Repr, DecidableEq

/-- `_frame_fragment_builder`: merge `nxt` into the frame under construction. The `complete`
flag is copied for every frame type (the code after fix F15); `next` only lives on PAYLOAD. -/
def mergeOne {α : Type} (c nxt : FFrame α) : FFrame α :=
  { ty := c.ty, sid := c.sid, n := c.n, follows := c.follows,
    complete := nxt.complete,
    next := if c.ty == Gen.tyPayload then nxt.next else c.next,
    md := c.md ++ nxt.md, d := c.d ++ nxt.d }

def build {α : Type} (cur : Option (FFrame α)) (nxt : FFrame α) : Option (FFrame α) :=
  match cur with
  | none => some nxt
  | some c => if nxt.ty != Gen.tyPayload then none else some (mergeOne c nxt)

/-- `FrameFragmentCache.append`. The merged frame is the *first fragment's object* mutated in
place, so its `follows` flag stays set; no handler reads it. -/
def append {α : Type} (c : Cache α) (f : FFrame α) : Cache α × AppendResult α :=
  if f.follows then
    match build (c.get? f.sid) f with
    | some m => (c.set f.sid m, .pending)
    | none => (c, .differentType)
  else
    match c.get? f.sid with
    | none => (c, .frame f)
    | some cur =>
      match build (some cur) f with
      | some m => (c.erase f.sid, .frame m)
      | none => (c, .differentType)

def appendAll {α : Type} (c : Cache α) : List (FFrame α) → Cache α × List (AppendResult α)
  | [] => (c, [])
  | f :: fs => let r := append c f; let r' := appendAll r.1 fs; (r'.1, r.2 :: r'.2)

end RSocketModel.Fragment
