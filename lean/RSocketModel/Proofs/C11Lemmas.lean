import RSocketModel.Engine.Invariants
/-! Helper definitions and lemmas for `Props/C11.lean` (moved out so that the property file holds only the property theorems). -/
namespace RSocketModel.Engine

/-- what stopping one registered handler object produces -/
def stopOuts (o : Option Stream) (oid : Nat) : List Out :=
  match o with
  | none => []
  | some s =>
    match s.kind with
    | .rrReq => if s.fut == .pending then [.futError oid cConnectionError] else []
    | .stReq => if s.subscribed then [.onError oid cConnectionError] else []
    | .rrResp => if s.fut == .pending then [.hfCancel oid] else []
    | .stResp => if s.hasPub then [.pubCancel oid] else []
    | .chReq => (if !s.recvComplete && s.subscribed then [.onError oid cConnectionError] else []) ++
                (if s.hasPub then [.pubCancel oid] else [])
    | .chResp => if s.hasPub then [.pubCancel oid] else []

theorem stopOne_outs (st : State) (sid oid : Nat) : (stopOne st sid oid).2 = stopOuts (st.obj oid) oid := by
  unfold stopOne stopOuts
  cases st.obj oid with
  | none => rfl
  | some s => cases hk : s.kind <;> simp only [hk] <;> (repeat' split) <;> simp_all

theorem stopOne_table (st : State) (sid oid : Nat) : (stopOne st sid oid).1.table = st.table.filter (·.1 != sid) := by
  unfold stopOne
  (repeat' split) <;> rfl

theorem stopOne_obj_ne (st : State) (sid oid j : Nat) (h : j ≠ oid) : (stopOne st sid oid).1.obj j = st.obj j := by
  unfold stopOne
  (repeat' split) <;> simp [finish_obj, unregister_obj, obj_setObj_ne _ _ _ _ h]

theorem stopOne_closed (st : State) (sid oid : Nat) : (stopOne st sid oid).1.closed = st.closed := by
  unfold stopOne
  (repeat' split) <;> rfl

/-- closed form of `stop_all_streams` over a list of entries with distinct object ids -/
theorem stopAll_outs (l : List (Nat × Nat)) : ∀ (st : State), (l.map (·.2)).Nodup →
    (stopAll st l).2 = l.flatMap (fun p => stopOuts (st.obj p.2) p.2) := by
  induction l with
  | nil => intro st _; rfl
  | cons p rest ih =>
    intro st hn
    obtain ⟨sid, oid⟩ := p
    simp only [List.map_cons, List.nodup_cons] at hn
    simp only [stopAll, List.flatMap_cons, stopOne_outs]
    rw [ih _ hn.2]
    congr 1
    have key : ∀ (r : List (Nat × Nat)), (∀ q ∈ r, q.2 ≠ oid) →
        r.flatMap (fun p => stopOuts ((stopOne st sid oid).1.obj p.2) p.2) = r.flatMap (fun p => stopOuts (st.obj p.2) p.2) := by
      intro r hr
      induction r with
      | nil => rfl
      | cons q qs ihq =>
        simp only [List.flatMap_cons]
        rw [stopOne_obj_ne st sid oid q.2 (hr q (by simp)), ihq (fun x hx => hr x (by simp [hx]))]
    apply key
    intro q hq e
    apply hn.1
    rw [← e]
    exact List.mem_map_of_mem hq

theorem stopAll_table (l : List (Nat × Nat)) : ∀ (st : State),
    (stopAll st l).1.table = st.table.filter (fun p => !(l.map (·.1)).contains p.1) := by
  induction l with
  | nil =>
    intro st
    simp only [stopAll, List.map_nil, List.contains_nil, Bool.not_false]
    exact (List.filter_eq_self.mpr (fun _ _ => rfl)).symm
  | cons p rest ih =>
    intro st
    simp only [stopAll, ih, stopOne_table, List.filter_filter, List.map_cons, List.contains_cons]
    apply List.filter_congr
    intro q _
    by_cases hq : q.1 = p.1
    · simp [hq]
    · have : ¬ (p.1 = q.1) := fun e => hq e.symm
      have h1 : (q.1 != p.1) = true := by simp [hq]
      have h2 : (q.1 == p.1) = false := by simp [hq]
      simp [h1, h2]

/-- closed form of the `lost` entry point: every registered handler is stopped once, in table
order, then the close notification is delivered; the table is empty and the endpoint is closed -/
theorem lost_spec (st : State) (h : WF st) (hc : st.closed = false) :
    (step st .lost).2 = st.table.flatMap (fun p => stopOuts (st.obj p.2) p.2) ++ [.onClose] ∧
    (step st .lost).1.table = [] ∧ (step st .lost).1.closed = true := by
  have ho := stopAll_outs st.table st h.oids_nodup
  have ht := stopAll_table st.table st
  refine ⟨?_, ?_, ?_⟩
  · simp only [step, lostStep, hc, Bool.false_eq_true, if_false, State.emit]
    rw [ho]
  · simp only [step, lostStep, hc, Bool.false_eq_true, if_false]
    rw [ht]
    apply List.filter_eq_nil_iff.mpr
    intro p hp
    have : (st.table.map (·.1)).contains p.1 = true := by
      rw [List.contains_iff_mem]
      exact List.mem_map_of_mem hp
    rw [this]; simp
  · simp only [step, lostStep, hc, Bool.false_eq_true, if_false]

theorem count_le_one_of_nodup {α : Type} [DecidableEq α] (l : List α) (h : l.Nodup) (x : α) : l.count x ≤ 1 := by
  induction l with
  | nil => simp
  | cons y ys ih =>
    simp only [List.nodup_cons] at h
    by_cases hxy : y = x
    · subst hxy
      have : ys.count y = 0 := List.count_eq_zero.mpr h.1
      simp [List.count_cons, this]
    · have := ih h.2
      simp [List.count_cons, hxy]; exact this

theorem stopOuts_nodup (o : Option Stream) (oid : Nat) : (stopOuts o oid).Nodup := by
  unfold stopOuts
  cases o with
  | none => simp
  | some s => cases s.kind <;> simp only <;> (repeat' split) <;> simp

/-- what stopping the handler with object id `q` can emit: only signals addressed to `q` -/
theorem stopOuts_mentions (o : Option Stream) (q : Nat) (x : Out) (hx : x ∈ stopOuts o q) :
    x = .futError q cConnectionError ∨ x = .onError q cConnectionError ∨ x = .hfCancel q ∨ x = .pubCancel q := by
  unfold stopOuts at hx
  cases o with
  | none => simp at hx
  | some s =>
    cases s.kind <;> simp only at hx <;> (repeat' split at hx) <;> (try simp at hx) <;>
      (first | (rcases hx with rfl | rfl <;> simp) | (subst hx; simp))

@[simp] theorem closed_setObj (st : State) (oid : Nat) (s : Stream) : (st.setObj oid s).closed = st.closed := rfl
@[simp] theorem closed_finish (st : State) (sid : Nat) : (st.finish sid).closed = st.closed := rfl
@[simp] theorem closed_register (st : State) (s : Stream) : (st.register s).1.closed = st.closed := rfl
@[simp] theorem closed_markChannel (st : State) (oid : Nat) (s : Stream) (r t : Bool) : (markChannel st oid s r t).closed = st.closed := by
  simp only [markChannel]; split <;> rfl
@[simp] theorem closed_allocate (st : State) : (allocate st).2.closed = st.closed := rfl

theorem stopAll_closed (l : List (Nat × Nat)) : ∀ st : State, (stopAll st l).1.closed = st.closed := by
  induction l with
  | nil => intro st; rfl
  | cons p rest ih => intro st; simp only [stopAll, ih, stopOne_closed]

theorem stopAll_no_close (l : List (Nat × Nat)) : ∀ st : State, Out.onClose ∉ (stopAll st l).2 := by
  induction l with
  | nil => intro st; simp [stopAll]
  | cons p rest ih =>
    intro st hm
    simp only [stopAll, List.mem_append, stopOne_outs] at hm
    rcases hm with hm | hm
    · have := stopOuts_mentions _ _ _ hm
      rcases this with h | h | h | h <;> simp at h
    · exact ih _ hm

theorem apiStep_closed (st : State) (ev : Ev) : (apiStep st ev).1.closed = st.closed ∧ Out.onClose ∉ (apiStep st ev).2 := by
  cases ev <;> simp only [apiStep]
  case requestResponse data =>
    rcases hal : allocate st with ⟨o, st1⟩
    have := closed_allocate st; rw [hal] at this
    cases o <;> simp_all
  case fireAndForget data =>
    rcases hal : allocate st with ⟨o, st1⟩
    have := closed_allocate st; rw [hal] at this
    cases o <;> simp_all
  case requestStream data n sub =>
    rcases hal : allocate st with ⟨o, st1⟩
    have := closed_allocate st; rw [hal] at this
    cases o <;> simp only <;> (repeat' split) <;> simp_all
  case requestChannel data n hp sub =>
    rcases hal : allocate st with ⟨o, st1⟩
    have := closed_allocate st; rw [hal] at this
    cases o <;> simp only <;> (repeat' split) <;> simp_all
  all_goals ((repeat' split) <;> simp_all)

/-- a closed endpoint stays closed and never delivers the close notification again -/
theorem closed_stays (st : State) (hc : st.closed = true) (ev : Ev) :
    (step st ev).2.count .onClose = 0 ∧ (step st ev).1.closed = true := by
  have hcount : ∀ l : List Out, Out.onClose ∉ l → (st.emit l).count .onClose = 0 := by
    intro l hl
    apply List.count_eq_zero.mpr
    intro hm
    simp only [State.emit, hc, if_true, List.mem_filter] at hm
    exact hl hm.1
  cases ev with
  | recv f b => simp [step, recvStep, hc, State.emit]
  | lost => simp [step, lostStep, hc, State.emit]
  | stopStreams =>
    simp only [step, stopStreamsStep]
    exact ⟨hcount _ (stopAll_no_close _ _), by rw [stopAll_closed]; exact hc⟩
  | _ =>
    simp only [step]
    exact ⟨hcount _ (apiStep_closed st _).2, by rw [(apiStep_closed st _).1]; exact hc⟩

end RSocketModel.Engine

