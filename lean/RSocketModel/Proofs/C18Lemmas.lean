import RSocketModel.Proofs.Composite
/-! Helper definitions and lemmas for `Props/C18.lean` (moved out so that the property file holds only the property theorems). -/
namespace RSocketModel.Composite

/-- an item within the format's limits -/
def WFItem : Item → Prop
  | .raw m _ => WFName Gen.mimeTable m ∧ m ≠ nameRouting ∧ m ≠ nameMime ∧ m ≠ nameAccept ∧ m ≠ nameAuth
  | .routing tags => ∀ t ∈ tags, t.length ≤ 255
  | .dataMime m => WFName Gen.mimeTable m
  | .acceptMimes ms => ∀ m ∈ ms, WFName Gen.mimeTable m
  | .authSimple u _ => u.length < 2 ^ 16
  | .authBearer _ => True

instance (t : Table) (n : Bytes) : Decidable (WFName t n) := by unfold WFName; infer_instance
instance (it : Item) : Decidable (WFItem it) := by cases it <;> unfold WFItem <;> infer_instance

theorem names_distinct :
    nameMime ≠ nameRouting ∧ nameAccept ≠ nameRouting ∧ nameAccept ≠ nameMime ∧ nameAuth ≠ nameRouting ∧
    nameAuth ≠ nameMime ∧ nameAuth ≠ nameAccept ∧ nameBearer ≠ nameSimple := by decide +kernel

theorem special_names_wf :
    WFName Gen.mimeTable nameRouting ∧ WFName Gen.mimeTable nameMime ∧ WFName Gen.mimeTable nameAccept ∧
    WFName Gen.mimeTable nameAuth := by
  refine ⟨Or.inr ?_, Or.inr ?_, Or.inr ?_, Or.inr ?_⟩ <;> decide +kernel

theorem item_mime_wf (it : Item) (h : WFItem it) : WFName Gen.mimeTable it.mime := by
  obtain ⟨h1, h2, h3, h4⟩ := special_names_wf
  cases it <;> simp only [Item.mime] <;> first | exact h.1 | assumption

theorem decode_nil : decode Gen.mimeTable Gen.authTable [] = .ok [] := by
  rw [decode]; simp

end RSocketModel.Composite

