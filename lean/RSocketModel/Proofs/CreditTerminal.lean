import RSocketModel.Credit
/-!
Helper lemmas for the "nothing after the terminal signal" clause on the library's stream sources
(`Credit.lean`): the producer puts exactly one terminal item into the queue, as its last item, and
stops; once the feeder has delivered it nothing is left.
-/
namespace RSocketModel.Credit

variable {α : Type}

/-- an item that ends the stream: an element flagged complete, the bare completion, the error -/
def Item.isTerminal : Item α → Bool
  | .elem _ c => c
  | .complete => true
  | .error => true

def noTerm (q : List (Item α)) : Prop := ∀ i ∈ q, i.isTerminal = false

/-- producer not finished: no terminal item produced yet; finished: exactly one, the last of the
queue, or already delivered with the queue empty -/
def TInv (s : State α) : Prop :=
  (s.producerDone = false → noTerm s.outQ ∧ s.terminal = none) ∧
  (s.producerDone = true →
    (s.terminal = none ∧ ∃ pre t, s.outQ = pre ++ [t] ∧ noTerm pre ∧ t.isTerminal = true) ∨
    (s.outQ = [] ∧ s.terminal ≠ none))

theorem tinv_init (src : List α) (f e : Bool) : TInv (init src f e) := by
  simp [TInv, init, noTerm]

theorem noTerm_append_single (q : List (Item α)) (x : Item α) (hq : noTerm q) (hx : x.isTerminal = false) :
    noTerm (q ++ [x]) := by
  intro i hi
  rcases List.mem_append.mp hi with h | h
  · exact hq i h
  · simp at h; subst h; exact hx

theorem tinv_step (s : State α) (e : Ev) (h : TInv s) : TInv (step s e) := by
  obtain ⟨hA, hB⟩ := h
  cases e with
  | request n =>
    simp only [step]
    split
    · exact ⟨hA, hB⟩
    · exact ⟨hA, hB⟩
  | cancel => exact ⟨hA, hB⟩
  | produce =>
    simp only [step]
    split
    · exact ⟨hA, hB⟩
    · rename_i hnd
      have hd : s.producerDone = false := by
        cases hp : s.producerDone <;> simp_all
      obtain ⟨hq, ht⟩ := hA hd
      split
      · split
        · exact ⟨hA, hB⟩
        · exact ⟨fun h => hA h, fun h => hB h⟩
      · split
        · rename_i x rest hsrc
          by_cases hl : (rest.isEmpty && s.flagged) = true
          · refine ⟨fun h => by simp [hl] at h, fun _ => Or.inl ⟨ht, s.outQ, .elem x true, by simp [hl], hq, rfl⟩⟩
          · have hl' : (rest.isEmpty && s.flagged) = false := by simpa using hl
            refine ⟨fun _ => ⟨?_, ht⟩, fun h => by simp [hl'] at h⟩
            simp only [hl']
            exact noTerm_append_single _ _ hq rfl
        · refine ⟨fun h => by simp at h, fun _ => Or.inl ⟨ht, s.outQ, _, rfl, hq, ?_⟩⟩
          split <;> rfl
  | feed =>
    simp only [step]
    split
    · exact ⟨hA, hB⟩
    · split
      · exact ⟨hA, hB⟩
      all_goals
        rename_i hq
        cases hd : s.producerDone with
        | false =>
          obtain ⟨hnt, ht⟩ := hA hd
          have hhead := hnt _ (by rw [hq]; exact List.mem_cons_self)
          first
          | (simp [Item.isTerminal] at hhead; done)
          | (simp only [Item.isTerminal] at hhead
             subst hhead
             refine ⟨fun _ => ⟨fun i hi => hnt i (by rw [hq]; exact List.mem_cons_of_mem _ hi), by simpa using ht⟩, fun h => by simp [hd] at h⟩)
        | true =>
          rcases hB hd with ⟨ht, pre, t, hout, hpre, htt⟩ | ⟨hout, _⟩
          · refine ⟨fun h => by simp [hd] at h, fun _ => ?_⟩
            cases pre with
            | nil =>
              simp only [List.nil_append] at hout
              rw [hq] at hout
              obtain ⟨h1, h2⟩ := List.cons.inj hout
              subst h1
              right
              first
              | (simp only [Item.isTerminal] at htt; subst htt; simp [h2])
              | simp [h2]
            | cons p ps =>
              rw [hq] at hout
              obtain ⟨h1, h2⟩ := List.cons.inj hout
              have hp := hpre p List.mem_cons_self
              subst h1
              left
              first
              | (simp [Item.isTerminal] at hp; done)
              | (simp only [Item.isTerminal] at hp
                 subst hp
                 exact ⟨by simpa using ht, ps, t, h2, fun i hi => hpre i (List.mem_cons_of_mem _ hi), htt⟩)
          · rw [hq] at hout; cases hout

theorem tinv_run (s : State α) (evs : List Ev) (h : TInv s) : TInv (run s evs) := by
  induction evs generalizing s with
  | nil => exact h
  | cons e es ih => exact ih _ (tinv_step s e h)

/-- after the terminal signal was delivered, no event changes what the subscriber has seen -/
theorem step_after_terminal (s : State α) (h : TInv s) (ht : s.terminal ≠ none) (e : Ev) :
    (step s e).emitted = s.emitted ∧ (step s e).terminal = s.terminal := by
  have hd : s.producerDone = true := by
    cases hp : s.producerDone with
    | true => rfl
    | false => exact absurd (h.1 hp).2 ht
  have hq : s.outQ = [] := by
    rcases h.2 hd with ⟨h1, _⟩ | ⟨h1, _⟩
    · exact absurd h1 ht
    · exact h1
  cases e with
  | request n => simp only [step]; split <;> exact ⟨rfl, rfl⟩
  | cancel => exact ⟨rfl, rfl⟩
  | produce => simp [step, hd]
  | feed => simp only [step, hq]; split <;> exact ⟨rfl, rfl⟩

theorem run_after_terminal (s : State α) (h : TInv s) (ht : s.terminal ≠ none) (evs : List Ev) :
    (run s evs).emitted = s.emitted ∧ (run s evs).terminal = s.terminal := by
  induction evs generalizing s with
  | nil => exact ⟨rfl, rfl⟩
  | cons x xs ih =>
    obtain ⟨h1, h2⟩ := step_after_terminal s h ht x
    have := ih (step s x) (tinv_step s x h) (by rw [h2]; exact ht)
    simp only [run, List.foldl_cons] at this ⊢
    exact ⟨this.1.trans h1, this.2.trans h2⟩

/-- a finished producer never produces again: the source is not touched and the queue only shrinks -/
theorem step_done (s : State α) (hd : s.producerDone = true) (e : Ev) :
    (step s e).producerDone = true ∧ (step s e).src = s.src ∧ ∀ i ∈ (step s e).outQ, i ∈ s.outQ := by
  cases e with
  | request n => simp only [step]; split <;> exact ⟨hd, rfl, fun _ h => h⟩
  | cancel => exact ⟨hd, rfl, fun _ h => h⟩
  | produce => simp [step, hd]
  | feed =>
    simp only [step]
    split
    · exact ⟨hd, rfl, fun _ h => h⟩
    · split
      · exact ⟨hd, rfl, fun _ h => h⟩
      all_goals
        rename_i hq
        exact ⟨hd, rfl, fun i hi => by rw [hq]; exact List.mem_cons_of_mem _ hi⟩

theorem run_done (s : State α) (hd : s.producerDone = true) (evs : List Ev) :
    (run s evs).producerDone = true ∧ (run s evs).src = s.src ∧ ∀ i ∈ (run s evs).outQ, i ∈ s.outQ := by
  induction evs generalizing s with
  | nil => exact ⟨hd, rfl, fun _ h => h⟩
  | cons e es ih =>
    obtain ⟨h1, h2, h3⟩ := step_done s hd e
    obtain ⟨g1, g2, g3⟩ := ih (step s e) h1
    simp only [run, List.foldl_cons] at g1 g2 g3 ⊢
    exact ⟨g1, g2.trans h2, fun i hi => h3 i (g3 i hi)⟩

end RSocketModel.Credit
