import RSocketModel.Proofs.Parser
/-! Helper definitions and lemmas for `Props/C04.lean` (moved out so that the property file holds only the property theorems). -/
namespace RSocketModel.Parser

variable {β : Type}

theorem feedAll_of_residue (parse : Bytes → List β) (chunks : List Bytes) :
    ∀ buf, drain parse buf = ([], buf) →
      feedAll parse buf chunks = drain parse (buf ++ chunks.flatten) := by
  induction chunks with
  | nil => intro buf h; simp [feedAll, h]
  | cons c cs ih =>
    intro buf _
    simp only [feedAll, feed, List.flatten_cons]
    rw [ih _ (drain_residue parse (buf ++ c)), ← List.append_assoc, drain_append parse (buf ++ c)]

end RSocketModel.Parser

