import RSocketModel.Props.C03
import RSocketModel.Props.C05
import RSocketModel.Props.C04
/-!
Composition lemmas for C01: the fragment cache handles interleaved streams independently, and a
stream's fragments — contiguous per frame *within the stream*, arbitrarily interleaved with other
streams — reassemble to exactly the frames that were fragmented, in order.
-/
namespace RSocketModel.Pipeline

open Fragment

variable {α : Type}

/-- the complete frames the cache hands on -/
def frames : List (AppendResult α) → List (FFrame α)
  | [] => []
  | .frame f :: r => f :: frames r
  | _ :: r => frames r

theorem frames_append (a b : List (AppendResult α)) : frames (a ++ b) = frames a ++ frames b := by
  induction a with
  | nil => rfl
  | cons x xs ih => cases x <;> simp [frames, ih]

theorem frames_replicate_pending (k : Nat) : frames (List.replicate k (.pending : AppendResult α)) = [] := by
  induction k with
  | zero => rfl
  | succ n ih => simp [List.replicate_succ, frames, ih]

/-- what the receiver dispatches: the frames completed while feeding `w` to the cache -/
def deliver (c : Cache α) (w : List (FFrame α)) : List (FFrame α) := frames (appendAll c w).2

theorem appendAll_append (c : Cache α) (a b : List (FFrame α)) :
    appendAll c (a ++ b) = ((appendAll (appendAll c a).1 b).1, (appendAll c a).2 ++ (appendAll (appendAll c a).1 b).2) := by
  induction a generalizing c with
  | nil => simp [appendAll]
  | cons x xs ih => simp only [List.cons_append, appendAll, ih, List.cons_append]

/-- cache entries are filed under their own stream id -/
def KeyOK (c : Cache α) : Prop := ∀ sid g, c.get? sid = some g → g.sid = sid

theorem keyOK_nil : KeyOK ([] : Cache α) := by intro sid g h; simp [Cache.get?] at h

theorem keyOK_set (c : Cache α) (h : KeyOK c) (sid : Nat) (m : FFrame α) (hm : m.sid = sid) : KeyOK (c.set sid m) := by
  intro j g hg
  by_cases hj : j = sid
  · subst hj; rw [Cache.get_set] at hg; cases hg; exact hm
  · rw [Cache.get_set_ne _ _ _ _ hj] at hg; exact h j g hg

theorem keyOK_erase (c : Cache α) (h : KeyOK c) (sid : Nat) : KeyOK (c.erase sid) := by
  intro j g hg
  by_cases hj : j = sid
  · subst hj; rw [Cache.get_erase] at hg; cases hg
  · rw [Cache.get_erase_ne _ _ _ hj] at hg; exact h j g hg

theorem append_eq (c : Cache α) (f : FFrame α) : append c f =
    match f.follows, c.get? f.sid with
    | true, none => (c.set f.sid f, .pending)
    | true, some cur => if f.ty != Gen.tyPayload then (c, .differentType) else (c.set f.sid (mergeOne cur f), .pending)
    | false, none => (c, .frame f)
    | false, some cur => if f.ty != Gen.tyPayload then (c, .differentType) else (c.erase f.sid, .frame (mergeOne cur f)) := by
  unfold append
  cases f.follows <;> cases c.get? f.sid <;> simp only [build, Bool.false_eq_true, if_false, if_true] <;>
    (try (by_cases ht : (f.ty != Gen.tyPayload) = true <;> simp [ht]))

theorem keyOK_append (c : Cache α) (h : KeyOK c) (f : FFrame α) : KeyOK (append c f).1 := by
  rw [append_eq]
  cases f.follows <;> cases hg : c.get? f.sid <;> simp only <;> (try split)
  · exact h
  · exact h
  · exact keyOK_erase c h _
  · exact keyOK_set c h _ _ rfl
  · exact h
  · exact keyOK_set c h _ _ (by simp only [mergeOne]; exact h _ _ hg)

/-- a fragment touches only its own stream's cache entry -/
theorem append_get_ne (c : Cache α) (f : FFrame α) (j : Nat) (hj : j ≠ f.sid) : (append c f).1.get? j = c.get? j := by
  rw [append_eq]
  cases f.follows <;> cases hg : c.get? f.sid <;> simp only <;> (try split) <;> (try dsimp only)
  all_goals first | rfl | exact Cache.get_erase_ne _ _ _ hj | exact Cache.get_set_ne _ _ _ _ hj

/-- a frame completed by a fragment is on that fragment's stream -/
theorem append_frame_sid (c : Cache α) (h : KeyOK c) (f g : FFrame α) (hr : (append c f).2 = .frame g) : g.sid = f.sid := by
  rw [append_eq] at hr
  cases hfo : f.follows <;> cases hg : c.get? f.sid <;> simp only [hfo, hg] at hr <;> (try split at hr) <;>
    simp only [AppendResult.frame.injEq, reduceCtorEq] at hr
  · rw [← hr]
  · rw [← hr]; simp only [mergeOne]; exact h _ _ hg

/-- what a fragment does depends only on its own stream's cache entry -/
theorem append_congr (c c' : Cache α) (f : FFrame α) (h : c.get? f.sid = c'.get? f.sid) :
    (append c f).2 = (append c' f).2 ∧ (append c f).1.get? f.sid = (append c' f).1.get? f.sid := by
  rw [append_eq, append_eq, ← h]
  cases f.follows <;> cases hg : c.get? f.sid <;> simp only <;> (try split) <;> (try dsimp only) <;>
    refine ⟨by first | rfl | trivial, ?_⟩
  all_goals first
    | (rw [Cache.get_erase, Cache.get_erase])
    | (rw [Cache.get_set, Cache.get_set])
    | (rw [hg, ← h, hg])

/-- **streams are reassembled independently**: what is delivered for stream `sid` out of an
interleaved sequence is what would be delivered from that stream's fragments alone -/
theorem deliver_proj (sid : Nat) (w : List (FFrame α)) : ∀ (c c' : Cache α), KeyOK c → KeyOK c' →
    c.get? sid = c'.get? sid →
    (deliver c w).filter (·.sid == sid) = deliver c' (w.filter (·.sid == sid)) ∧
    (appendAll c w).1.get? sid = (appendAll c' (w.filter (·.sid == sid))).1.get? sid := by
  induction w with
  | nil => intro c c' _ _ h; exact ⟨rfl, h⟩
  | cons f fs ih =>
    intro c c' hk hk' h
    by_cases hf : f.sid = sid
    · have hfb : (f.sid == sid) = true := by simpa using hf
      simp only [List.filter_cons, hfb, if_true, deliver, appendAll]
      have hcg := append_congr c c' f (by rw [hf]; exact h)
      have := ih (append c f).1 (append c' f).1 (keyOK_append c hk f) (keyOK_append c' hk' f) (by rw [← hf]; exact hcg.2)
      simp only [deliver] at this
      refine ⟨?_, this.2⟩
      rw [← hcg.1]
      cases hr : (append c f).2 with
      | pending => simp only [frames]; exact this.1
      | differentType => simp only [frames]; exact this.1
      | frame g =>
        have hgs := append_frame_sid c hk f g hr
        have hgb : (g.sid == sid) = true := by simp [hgs, hf]
        simp only [frames, List.filter_cons, hgb, if_true, this.1]
    · have hfb : (f.sid == sid) = false := by simpa using hf
      simp only [List.filter_cons, hfb, Bool.false_eq_true, if_false, deliver, appendAll]
      have hne : sid ≠ f.sid := fun e => hf e.symm
      have := ih (append c f).1 c' (keyOK_append c hk f) hk' (by rw [append_get_ne c f sid hne]; exact h)
      simp only [deliver] at this
      refine ⟨?_, this.2⟩
      cases hr : (append c f).2 with
      | pending => simp only [frames]; exact this.1
      | differentType => simp only [frames]; exact this.1
      | frame g =>
        have hgs := append_frame_sid c hk f g hr
        have hgb : (g.sid == sid) = false := by simp [hgs, hf]
        simp only [frames, List.filter_cons, hgb, Bool.false_eq_true, if_false, this.1]

/-- the internal `follows` flag of the merged object is the only thing that may differ from the
canonical wire form of the original; no handler reads it -/
def forget (f : FFrame α) : FFrame α := { f with follows := false }

/-- **one stream**: the fragments of a sequence of frames, frame after frame, reassemble to
exactly those frames, in order, and leave no cache entry -/
theorem deliver_stream (F : Nat) (lp : Bool) (hF : Gen.minimumFragmentSize ≤ F) (sid : Nat) (bs : List (Base α)) :
    ∀ (c : Cache α), c.get? sid = none → (∀ b ∈ bs, b.sid = sid ∧ b.ty ∈ Gen.fragmentableTypes) →
    (deliver c (bs.flatMap (toFrames · F lp))).map forget = bs.map canonBase ∧
    (appendAll c (bs.flatMap (toFrames · F lp))).1.get? sid = none := by
  induction bs with
  | nil => intro c hc _; exact ⟨rfl, hc⟩
  | cons b rest ih =>
    intro c hc hb
    obtain ⟨hbs, hbt⟩ := hb b (by simp)
    have hc' : c.get? b.sid = none := by rw [hbs]; exact hc
    simp only [List.flatMap_cons, deliver, appendAll_append, frames_append, List.map_append, List.map_cons]
    have hre := c03_reassemble_exact b F lp hbt hF c hc'
    simp only at hre
    have hrest := fun c1 h1 => ih c1 h1 (fun x hx => hb x (by simp [hx]))
    rcases hre with hre | ⟨_, hre⟩
    · rw [hre]
      simp only [frames_append, frames_replicate_pending, frames, List.nil_append, List.map_cons, List.map_nil]
      have h1 : (c.erase b.sid).get? sid = none := by rw [hbs]; exact Cache.get_erase c sid
      obtain ⟨r1, r2⟩ := hrest _ h1
      simp only [deliver] at r1
      refine ⟨?_, r2⟩
      rw [r1]
      simp [forget, canonBase]
    · rw [hre]
      simp only [frames, List.map_cons, List.map_nil]
      obtain ⟨r1, r2⟩ := hrest c hc
      simp only [deliver] at r1
      refine ⟨?_, r2⟩
      rw [r1]
      simp [forget, canonBase]

/-! ### the sender side: schedules of application sends and sender passes -/

open SendQueue

/-- the source queued for a frame: its stream id and its fragments -/
def srcOf (F : Nat) (lp : Bool) (b : Base α) : Src (FFrame α) := ⟨b.sid, toFrames b F lp⟩

/-- a schedule: `some b` = the application hands frame `b` to `send_frame`; `none` = one pass of
the sender task -/
def evsOf (F : Nat) (lp : Bool) : List (Option (Base α)) → List (Ev (FFrame α))
  | [] => []
  | some b :: r => .enq (srcOf F lp b) :: evsOf F lp r
  | none :: r => .step :: evsOf F lp r

def handed : List (Option (Base α)) → List (Base α)
  | [] => []
  | some b :: r => b :: handed r
  | none :: r => handed r

theorem toFrames_ne_nil (F : Nat) (lp : Bool) (hF : Gen.minimumFragmentSize ≤ F) (b : Base α)
    (hty : b.ty ∈ Gen.fragmentableTypes) : toFrames b F lp ≠ [] := by
  obtain ⟨x, t, he, _⟩ := c03_first_type_and_n b F lp hty hF
  rw [he]; simp

theorem toFrames_sid (F : Nat) (lp : Bool) (hF : Gen.minimumFragmentSize ≤ F) (b : Base α)
    (hty : b.ty ∈ Gen.fragmentableTypes) : ∀ f ∈ toFrames b F lp, f.sid = b.sid := by
  obtain ⟨x, t, he, _, _, hx, ht⟩ := c03_first_type_and_n b F lp hty hF
  rw [he]
  intro f hf
  simp only [List.mem_cons] at hf
  rcases hf with rfl | hf
  · exact hx
  · exact (ht f hf).2.2

theorem legal_evsOf (F : Nat) (lp : Bool) (hF : Gen.minimumFragmentSize ≤ F) (sched : List (Option (Base α)))
    (hty : ∀ b, some b ∈ sched → b.ty ∈ Gen.fragmentableTypes) : ∀ s, Legal s (evsOf F lp sched) := by
  induction sched with
  | nil => intro s; trivial
  | cons x r ih =>
    intro s
    cases x with
    | none => exact ⟨trivial, ih (fun b hb => hty b (by simp [hb])) _⟩
    | some b =>
      exact ⟨toFrames_ne_nil F lp hF b (hty b (by simp)), ih (fun b' hb => hty b' (by simp [hb])) _⟩

theorem queuedFor_evsOf (F : Nat) (lp : Bool) (sid : Nat) (sched : List (Option (Base α))) :
    queuedFor sid (evsOf F lp sched) = ((handed sched).filter (·.sid == sid)).flatMap (toFrames · F lp) := by
  induction sched with
  | nil => rfl
  | cons x r ih =>
    cases x with
    | none => simpa [evsOf, queuedFor, handed] using ih
    | some b =>
      simp only [evsOf, queuedFor, handed, srcOf, List.filter_cons, ih]
      split <;> simp

/-- a property of (stream id, fragment) pairs that holds of everything queued holds of everything
on the wire -/
def QInv (P : Nat → FFrame α → Prop) (s : State (FFrame α)) : Prop :=
  (∀ src ∈ s.queue, ∀ f ∈ src.frags, P src.sid f) ∧ (∀ p ∈ s.wire, P p.1 p.2)

theorem qinv_step (P : Nat → FFrame α → Prop) (s : State (FFrame α)) (h : QInv P s) : QInv P (step s) := by
  obtain ⟨hq, hw⟩ := h
  unfold step
  cases hqq : s.queue with
  | nil => simp only; exact ⟨by rw [hqq]; simp, hw⟩
  | cons hd t =>
    rw [hqq] at hq
    simp only
    cases hf : hd.frags with
    | nil => exact ⟨fun src hs => hq src (by simp [hs]), hw⟩
    | cons f rest =>
      have hfs : P hd.sid f := hq hd (by simp) f (by simp [hf])
      cases rest with
      | nil =>
        refine ⟨fun src hs => hq src (by simp [hs]), ?_⟩
        intro p hp
        simp only [List.mem_append, List.mem_singleton] at hp
        rcases hp with hp | rfl
        · exact hw p hp
        · exact hfs
      | cons g rest' =>
        refine ⟨?_, ?_⟩
        · intro src hs
          simp only [cycle, List.mem_append, List.mem_filter, List.mem_cons] at hs
          rcases hs with ⟨hs | hs, _⟩ | ⟨hs | hs, _⟩
          · subst hs; intro f' hf'; exact hq hd (by simp) f' (by rw [hf]; simp at hf' ⊢; right; exact hf')
          · exact hq src (by simp [hs])
          · subst hs; intro f' hf'; exact hq hd (by simp) f' (by rw [hf]; simp at hf' ⊢; right; exact hf')
          · exact hq src (by simp [hs])
        · intro p hp
          simp only [List.mem_append, List.mem_singleton] at hp
          rcases hp with hp | rfl
          · exact hw p hp
          · exact hfs

theorem qinv_run (P : Nat → FFrame α → Prop) (F : Nat) (lp : Bool) (sched : List (Option (Base α)))
    (hP : ∀ b, some b ∈ sched → ∀ f ∈ toFrames b F lp, P b.sid f) : ∀ s, QInv P s → QInv P (run s (evsOf F lp sched)) := by
  induction sched with
  | nil => intro s h; exact h
  | cons x r ih =>
    intro s h
    cases x with
    | none =>
      simp only [evsOf, run, List.foldl_cons, apply]
      exact ih (fun b hb => hP b (by simp [hb])) _ (qinv_step P s h)
    | some b =>
      simp only [evsOf, run, List.foldl_cons, apply]
      refine ih (fun b' hb => hP b' (by simp [hb])) _ ⟨?_, h.2⟩
      intro src hs
      simp only [List.mem_append, List.mem_singleton] at hs
      rcases hs with hs | rfl
      · exact h.1 src hs
      · exact hP b (by simp)

/-- wire entries carry frames of the stream they are filed under -/
def Cons (s : State (FFrame α)) : Prop := QInv (fun sid f => f.sid = sid) s

theorem cons_run (F : Nat) (lp : Bool) (hF : Gen.minimumFragmentSize ≤ F) (sched : List (Option (Base α)))
    (hty : ∀ b, some b ∈ sched → b.ty ∈ Gen.fragmentableTypes) : ∀ s, Cons s → Cons (run s (evsOf F lp sched)) :=
  qinv_run _ F lp sched (fun b hb => toFrames_sid F lp hF b (hty b hb))

theorem wire_proj (s : State (FFrame α)) (h : Cons s) (sid : Nat) :
    (s.wire.map (·.2)).filter (·.sid == sid) = wireOf sid s.wire := by
  obtain ⟨_, hw⟩ := h
  unfold wireOf
  generalize s.wire = w at hw
  induction w with
  | nil => rfl
  | cons p t ih =>
    have hp := hw p (by simp)
    have ht := ih (fun q hq => hw q (by simp [hq]))
    simp only [List.map_cons, List.filter_cons, hp, ht]
    split <;> simp

end RSocketModel.Pipeline
