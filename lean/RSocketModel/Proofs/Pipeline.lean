import RSocketModel.Props.C03
import RSocketModel.Props.C05
import RSocketModel.Props.C04
/-!
Composition lemmas for C01: the fragment cache handles interleaved streams independently, and a
stream's fragments — contiguous per frame *within the stream*, arbitrarily interleaved with other
streams — reassemble to exactly the frames that were fragmented, in order.
-/
namespace RSocketModel.Pipeline

open Fragment

variable {α : Type}

/-- the complete frames the cache hands on -/
def frames : List (AppendResult α) → List (FFrame α)
  | [] => []
  | .frame f :: r => f :: frames r
  | _ :: r => frames r

theorem frames_append (a b : List (AppendResult α)) : frames (a ++ b) = frames a ++ frames b := by
  induction a with
  | nil => rfl
  | cons x xs ih => cases x <;> simp [frames, ih]

theorem frames_replicate_pending (k : Nat) : frames (List.replicate k (.pending : AppendResult α)) = [] := by
  induction k with
  | zero => rfl
  | succ n ih => simp [List.replicate_succ, frames, ih]

/-- what the receiver dispatches: the frames completed while feeding `w` to the cache -/
def deliver (c : Cache α) (w : List (FFrame α)) : List (FFrame α) := frames (appendAll c w).2

theorem appendAll_append (c : Cache α) (a b : List (FFrame α)) :
    appendAll c (a ++ b) = ((appendAll (appendAll c a).1 b).1, (appendAll c a).2 ++ (appendAll (appendAll c a).1 b).2) := by
  induction a generalizing c with
  | nil => simp [appendAll]
  | cons x xs ih => simp only [List.cons_append, appendAll, ih, List.cons_append]

/-- cache entries are filed under their own stream id -/
def KeyOK (c : Cache α) : Prop := ∀ sid g, c.get? sid = some g → g.sid = sid

theorem keyOK_nil : KeyOK ([] : Cache α) := by intro sid g h; simp [Cache.get?] at h

theorem keyOK_set (c : Cache α) (h : KeyOK c) (sid : Nat) (m : FFrame α) (hm : m.sid = sid) : KeyOK (c.set sid m) := by
  intro j g hg
  by_cases hj : j = sid
  · subst hj; rw [Cache.get_set] at hg; cases hg; exact hm
  · rw [Cache.get_set_ne _ _ _ _ hj] at hg; exact h j g hg

theorem keyOK_erase (c : Cache α) (h : KeyOK c) (sid : Nat) : KeyOK (c.erase sid) := by
  intro j g hg
  by_cases hj : j = sid
  · subst hj; rw [Cache.get_erase] at hg; cases hg
  · rw [Cache.get_erase_ne _ _ _ hj] at hg; exact h j g hg

theorem append_eq (c : Cache α) (f : FFrame α) : append c f =
    match f.follows, c.get? f.sid with
    | true, none => (c.set f.sid f, .pending)
    | true, some cur => if f.ty != Gen.tyPayload then (c, .differentType) else (c.set f.sid (mergeOne cur f), .pending)
    | false, none => (c, .frame f)
    | false, some cur => if f.ty != Gen.tyPayload then (c, .differentType) else (c.erase f.sid, .frame (mergeOne cur f)) := by
  unfold append
  cases f.follows <;> cases c.get? f.sid <;> simp only [build, Bool.false_eq_true, if_false, if_true] <;>
    (try (by_cases ht : (f.ty != Gen.tyPayload) = true <;> simp [ht]))

theorem keyOK_append (c : Cache α) (h : KeyOK c) (f : FFrame α) : KeyOK (append c f).1 := by
  rw [append_eq]
  cases f.follows <;> cases hg : c.get? f.sid <;> simp only <;> (try split)
  · exact h
  · exact h
  · exact keyOK_erase c h _
  · exact keyOK_set c h _ _ rfl
  · exact h
  · exact keyOK_set c h _ _ (by simp only [mergeOne]; exact h _ _ hg)

/-- a fragment touches only its own stream's cache entry -/
theorem append_get_ne (c : Cache α) (f : FFrame α) (j : Nat) (hj : j ≠ f.sid) : (append c f).1.get? j = c.get? j := by
  rw [append_eq]
  cases f.follows <;> cases hg : c.get? f.sid <;> simp only <;> (try split) <;> (try dsimp only)
  all_goals first | rfl | exact Cache.get_erase_ne _ _ _ hj | exact Cache.get_set_ne _ _ _ _ hj

/-- a frame completed by a fragment is on that fragment's stream -/
theorem append_frame_sid (c : Cache α) (h : KeyOK c) (f g : FFrame α) (hr : (append c f).2 = .frame g) : g.sid = f.sid := by
  rw [append_eq] at hr
  cases hfo : f.follows <;> cases hg : c.get? f.sid <;> simp only [hfo, hg] at hr <;> (try split at hr) <;>
    simp only [AppendResult.frame.injEq, reduceCtorEq] at hr
  · rw [← hr]
  · rw [← hr]; simp only [mergeOne]; exact h _ _ hg

/-- what a fragment does depends only on its own stream's cache entry -/
theorem append_congr (c c' : Cache α) (f : FFrame α) (h : c.get? f.sid = c'.get? f.sid) :
    (append c f).2 = (append c' f).2 ∧ (append c f).1.get? f.sid = (append c' f).1.get? f.sid := by
  rw [append_eq, append_eq, ← h]
  cases f.follows <;> cases hg : c.get? f.sid <;> simp only <;> (try split) <;> (try dsimp only) <;>
    refine ⟨by first | rfl | trivial, ?_⟩
  all_goals first
    | (rw [Cache.get_erase, Cache.get_erase])
    | (rw [Cache.get_set, Cache.get_set])
    | (rw [hg, ← h, hg])

/-- **streams are reassembled independently**: what is delivered for stream `sid` out of an
interleaved sequence is what would be delivered from that stream's fragments alone -/
theorem deliver_proj (sid : Nat) (w : List (FFrame α)) : ∀ (c c' : Cache α), KeyOK c → KeyOK c' →
    c.get? sid = c'.get? sid →
    (deliver c w).filter (·.sid == sid) = deliver c' (w.filter (·.sid == sid)) ∧
    (appendAll c w).1.get? sid = (appendAll c' (w.filter (·.sid == sid))).1.get? sid := by
  induction w with
  | nil => intro c c' _ _ h; exact ⟨rfl, h⟩
  | cons f fs ih =>
    intro c c' hk hk' h
    by_cases hf : f.sid = sid
    · have hfb : (f.sid == sid) = true := by simpa using hf
      simp only [List.filter_cons, hfb, if_true, deliver, appendAll]
      have hcg := append_congr c c' f (by rw [hf]; exact h)
      have := ih (append c f).1 (append c' f).1 (keyOK_append c hk f) (keyOK_append c' hk' f) (by rw [← hf]; exact hcg.2)
      simp only [deliver] at this
      refine ⟨?_, this.2⟩
      rw [← hcg.1]
      cases hr : (append c f).2 with
      | pending => simp only [frames]; exact this.1
      | differentType => simp only [frames]; exact this.1
      | frame g =>
        have hgs := append_frame_sid c hk f g hr
        have hgb : (g.sid == sid) = true := by simp [hgs, hf]
        simp only [frames, List.filter_cons, hgb, if_true, this.1]
    · have hfb : (f.sid == sid) = false := by simpa using hf
      simp only [List.filter_cons, hfb, Bool.false_eq_true, if_false, deliver, appendAll]
      have hne : sid ≠ f.sid := fun e => hf e.symm
      have := ih (append c f).1 c' (keyOK_append c hk f) hk' (by rw [append_get_ne c f sid hne]; exact h)
      simp only [deliver] at this
      refine ⟨?_, this.2⟩
      cases hr : (append c f).2 with
      | pending => simp only [frames]; exact this.1
      | differentType => simp only [frames]; exact this.1
      | frame g =>
        have hgs := append_frame_sid c hk f g hr
        have hgb : (g.sid == sid) = false := by simp [hgs, hf]
        simp only [frames, List.filter_cons, hgb, Bool.false_eq_true, if_false, this.1]

/-- the internal `follows` flag of the merged object is the only thing that may differ from the
canonical wire form of the original; no handler reads it -/
def forget (f : FFrame α) : FFrame α := { f with follows := false }

/-- **one stream**: the fragments of a sequence of frames, frame after frame, reassemble to
exactly those frames, in order, and leave no cache entry -/
theorem deliver_stream (F : Nat) (lp : Bool) (hF : Gen.minimumFragmentSize ≤ F) (sid : Nat) (bs : List (Base α)) :
    ∀ (c : Cache α), c.get? sid = none → (∀ b ∈ bs, b.sid = sid ∧ b.ty ∈ Gen.fragmentableTypes) →
    (deliver c (bs.flatMap (toFrames · F lp))).map forget = bs.map canonBase ∧
    (appendAll c (bs.flatMap (toFrames · F lp))).1.get? sid = none := by
  induction bs with
  | nil => intro c hc _; exact ⟨rfl, hc⟩
  | cons b rest ih =>
    intro c hc hb
    obtain ⟨hbs, hbt⟩ := hb b (by simp)
    have hc' : c.get? b.sid = none := by rw [hbs]; exact hc
    simp only [List.flatMap_cons, deliver, appendAll_append, frames_append, List.map_append, List.map_cons]
    have hre := c03_reassemble_exact b F lp hbt hF c hc'
    simp only at hre
    have hrest := fun c1 h1 => ih c1 h1 (fun x hx => hb x (by simp [hx]))
    rcases hre with hre | ⟨_, hre⟩
    · rw [hre]
      simp only [frames_append, frames_replicate_pending, frames, List.nil_append, List.map_cons, List.map_nil]
      have h1 : (c.erase b.sid).get? sid = none := by rw [hbs]; exact Cache.get_erase c sid
      obtain ⟨r1, r2⟩ := hrest _ h1
      simp only [deliver] at r1
      refine ⟨?_, r2⟩
      rw [r1]
      simp [forget, canonBase]
    · rw [hre]
      simp only [frames, List.map_cons, List.map_nil]
      obtain ⟨r1, r2⟩ := hrest c hc
      simp only [deliver] at r1
      refine ⟨?_, r2⟩
      rw [r1]
      simp [forget, canonBase]

end RSocketModel.Pipeline
