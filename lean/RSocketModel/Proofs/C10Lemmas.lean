import RSocketModel.Props.C11
/-! Helper definitions and lemmas for `Props/C10.lean` (moved out so that the property file holds only the property theorems). -/
namespace RSocketModel.Engine

theorem isActive_finish (st : State) (sid : Nat) :
    (st.finish sid).isActive sid = false ∧ (st.finish sid).cache.find? (·.1 == sid) = none := by
  constructor
  · simp [State.isActive, State.finish]
  · simp [State.finish, List.find?_eq_none]

theorem isActive_setObj (st : State) (oid : Nat) (s : Stream) (sid : Nat) : (st.setObj oid s).isActive sid = st.isActive sid := rfl

theorem markChannel_both (st : State) (oid : Nat) (s : Stream) (r t : Bool)
    (hb : ((s.recvComplete || r) && (s.sentComplete || t)) = true) :
    (markChannel st oid s r t).isActive s.sid = false ∧ (markChannel st oid s r t).cache.find? (·.1 == s.sid) = none := by
  simp only [markChannel, hb, if_true]
  exact isActive_finish _ _

section endings
variable (st : State) (hc : st.closed = false) (sid oid : Nat) (s : Stream)
variable (hreg : st.oidOf sid = some oid) (ho : st.obj oid = some s) (hsid : s.sid = sid) (h0 : sid ≠ 0)
variable (hcache : st.cache.find? (·.1 == sid) = none)
include hc hreg ho hsid h0 hcache

end endings

end RSocketModel.Engine

