import RSocketModel.Parser
import RSocketModel.Proofs.Basic
namespace RSocketModel.Parser

variable {β : Type}

theorem drain_short (parse : Bytes → List β) (buf : Bytes) (h : buf.length < 3) :
    drain parse buf = ([], buf) := by
  rw [drain]; simp [h]

theorem drain_incomplete (parse : Bytes → List β) (buf : Bytes) (h3 : ¬ buf.length < 3)
    (h : buf.length < beVal (buf.take 3) + 3) : drain parse buf = ([], buf) := by
  rw [drain]; simp [h3, h]

theorem drain_step (parse : Bytes → List β) (buf : Bytes) (h3 : ¬ buf.length < 3)
    (h : ¬ buf.length < beVal (buf.take 3) + 3) :
    drain parse buf =
      (parse ((buf.drop 3).take (beVal (buf.take 3))) ++ (drain parse (buf.drop (beVal (buf.take 3) + 3))).1,
       (drain parse (buf.drop (beVal (buf.take 3) + 3))).2) := by
  rw [drain]; simp [h3, h]

/-- Feeding more bytes after a drain is the same as draining everything at once. -/
theorem drain_append (parse : Bytes → List β) (buf c : Bytes) :
    drain parse (buf ++ c) =
      ((drain parse buf).1 ++ (drain parse ((drain parse buf).2 ++ c)).1,
       (drain parse ((drain parse buf).2 ++ c)).2) := by
  induction h : buf.length using Nat.strong_induction_on generalizing buf with
  | _ n ih =>
    by_cases h3 : buf.length < 3
    · simp [drain_short parse buf h3]
    · by_cases hl : buf.length < beVal (buf.take 3) + 3
      · simp [drain_incomplete parse buf h3 hl]
      · have ht : (buf ++ c).take 3 = buf.take 3 := by
          rw [List.take_append_of_le_length (by omega)]
        have h3' : ¬ (buf ++ c).length < 3 := by simp; omega
        have hl' : ¬ (buf ++ c).length < beVal ((buf ++ c).take 3) + 3 := by
          rw [ht]; simp; omega
        rw [drain_step parse (buf ++ c) h3' hl', drain_step parse buf h3 hl, ht]
        have hd : (buf ++ c).drop (beVal (buf.take 3) + 3) = buf.drop (beVal (buf.take 3) + 3) ++ c := by
          rw [List.drop_append_of_le_length (by omega)]
        have hd3 : ((buf ++ c).drop 3).take (beVal (buf.take 3)) = (buf.drop 3).take (beVal (buf.take 3)) := by
          rw [List.drop_append_of_le_length (by omega), List.take_append_of_le_length (by simp; omega)]
        rw [hd, hd3]
        have := ih (buf.drop (beVal (buf.take 3) + 3)).length (by simp; omega)
          (buf.drop (beVal (buf.take 3) + 3)) rfl
        rw [this]
        simp [List.append_assoc]

/-- draining is idempotent on its residue -/
theorem drain_residue (parse : Bytes → List β) (buf : Bytes) :
    drain parse (drain parse buf).2 = ([], (drain parse buf).2) := by
  induction h : buf.length using Nat.strong_induction_on generalizing buf with
  | _ n ih =>
    by_cases h3 : buf.length < 3
    · simp [drain_short parse buf h3]
    · by_cases hl : buf.length < beVal (buf.take 3) + 3
      · simp [drain_incomplete parse buf h3 hl]
      · rw [drain_step parse buf h3 hl]
        exact ih _ (by simp; omega) _ rfl

theorem take3_prefixed (f rest : Bytes) : (prefixed f ++ rest).take 3 = beBytes 3 f.length := by
  unfold prefixed
  rw [List.append_assoc, List.take_append_of_le_length (by simp)]
  rw [List.take_of_length_le (by simp)]

theorem drain_prefixed (parse : Bytes → List β) (f rest : Bytes) (hf : f.length < 2 ^ 24) :
    drain parse (prefixed f ++ rest) = (parse f ++ (drain parse rest).1, (drain parse rest).2) := by
  have hlen : beVal ((prefixed f ++ rest).take 3) = f.length := by
    rw [take3_prefixed, beVal_beBytes_of_lt 3 _ (by omega)]
  have hL : (prefixed f ++ rest).length = 3 + f.length + rest.length := by
    simp [prefixed]; omega
  rw [drain_step parse _ (by omega) (by rw [hlen]; omega), hlen]
  have h1 : (prefixed f ++ rest).drop 3 = f ++ rest := by
    unfold prefixed
    rw [List.append_assoc, List.drop_append_of_le_length (by simp)]
    rw [List.drop_of_length_le (by simp)]; rfl
  have h2 : (prefixed f ++ rest).drop (f.length + 3) = rest := by
    have : f.length + 3 = 3 + f.length := by omega
    rw [this, ← List.drop_drop, h1]
    simp
  rw [h1, h2]
  simp

end RSocketModel.Parser
