import RSocketModel.Props.C16
/-! Helper definitions and lemmas for `Props/C17.lean` (moved out so that the property file holds only the property theorems). -/
namespace RSocketModel.Client

def reconnect (s : State) : State := step (step s .closeForReconnect) .connect

/-- what the code did before fix F5: the liveness flag survived the reconnect, so after a
keepalive timeout the new connection sent nothing at all -/
def stepPreF5 (s : State) : Ev → State
  | .connect => { step s .connect with alive := s.alive }
  | e => step s e

end RSocketModel.Client

