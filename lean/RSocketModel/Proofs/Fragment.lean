import RSocketModel.Fragment
import RSocketModel.Proofs.Basic
/-!
Helper lemmas for C03. The three-phase loop of `FrameFragmenter.__iter__` (`fragments`) is shown
equal to a uniform single recursion `gen`, on which the structural facts are proved by one
induction each.
-/
namespace RSocketModel.Fragment

variable {α : Type}

/-- Uniform description: every fragment takes up to `size` bytes of metadata and, only if the
metadata chunk is short, fills up with data. -/
def gen (first next : Nat) (isFirst : Bool) (md d : List α) : List (Frag α) :=
  if _h : sz first next isFirst = 0 ∨ (md.length = 0 ∧ d.length = 0) then []
  else
    let size := sz first next isFirst
    let m := md.take size
    let dd := if m.length < size then d.take (size - m.length) else []
    { md := m, d := dd, isLast := (md.drop size).length == 0 && (d.drop dd.length).length == 0,
      isFirst := isFirst } :: gen first next false (md.drop size) (d.drop dd.length)
termination_by md.length + d.length
decreasing_by
  simp only [List.length_drop, List.length_take]
  split <;> simp only [List.length_take, List.length_nil] <;> omega

theorem gen_nil (first next : Nat) (isFirst : Bool) : gen first next isFirst ([] : List α) [] = [] := by
  rw [gen]; simp

theorem gen_unfold (first next : Nat) (isFirst : Bool) (md d : List α)
    (hs : 0 < sz first next isFirst) (hne : 0 < md.length + d.length) :
    gen first next isFirst md d =
      { md := md.take (sz first next isFirst),
        d := if (md.take (sz first next isFirst)).length < sz first next isFirst
             then d.take (sz first next isFirst - (md.take (sz first next isFirst)).length) else [],
        isLast := (md.drop (sz first next isFirst)).length == 0 &&
          (d.drop (if (md.take (sz first next isFirst)).length < sz first next isFirst
             then d.take (sz first next isFirst - (md.take (sz first next isFirst)).length) else []).length).length == 0,
        isFirst := isFirst } ::
      gen first next false (md.drop (sz first next isFirst))
        (d.drop (if (md.take (sz first next isFirst)).length < sz first next isFirst
             then d.take (sz first next isFirst - (md.take (sz first next isFirst)).length) else []).length) := by
  rw [gen]
  have : ¬ (sz first next isFirst = 0 ∨ (md.length = 0 ∧ d.length = 0)) := by omega
  simp only [this, dite_false]

/-- data-only phase -/
theorem gen_data_eq_dLoop (first next : Nat) (hn : 0 < next) (d : List α) :
    gen first next false [] d = dLoop next d := by
  induction hlen : d.length using Nat.strong_induction_on generalizing d with
  | _ n ih =>
    by_cases hd : d.length = 0
    · have : d = [] := List.eq_nil_of_length_eq_zero hd
      subst this
      rw [gen_nil, dLoop]; simp
    · have hs : 0 < sz first next false := by simp [sz, hn]
      rw [gen_unfold first next false [] d hs (by simp; omega), dLoop]
      have h1 : ¬ (next = 0 ∨ d.length = 0) := by omega
      simp only [h1, dite_false, sz, Bool.false_eq_true, if_false, List.take_nil, List.length_nil,
        List.drop_nil, hn, if_true, Nat.sub_zero, List.length_take]
      congr 1
      · congr 1
        simp only [List.length_drop, beq_iff_eq, Bool.true_and]
        by_cases hle : d.length ≤ next <;> simp [hle] <;> omega
      · by_cases hle : d.length ≤ next
        · simp only [hle, if_true]
          have : d.drop (min next d.length) = [] := by
            apply List.drop_of_length_le; omega
          rw [this, gen_nil]
        · simp only [hle, if_false]
          have hmin : min next d.length = next := by omega
          rw [hmin]
          exact ih _ (by simp; omega) _ rfl

/-- metadata phase -/
theorem gen_md_phase (first next : Nat) (hf : 0 < first) (hn : 0 < next) (isFirst : Bool)
    (md d : List α) :
    gen first next isFirst md d =
      (mdLoop first next (d.length == 0) isFirst md).1 ++
        gen first next (mdLoop first next (d.length == 0) isFirst md).2.2
          (mdLoop first next (d.length == 0) isFirst md).2.1 d := by
  induction hlen : md.length using Nat.strong_induction_on generalizing md isFirst with
  | _ n ih =>
    have hs : 0 < sz first next isFirst := by cases isFirst <;> simp [sz, hf, hn]
    rw [mdLoop]
    by_cases hlt : md.length < sz first next isFirst
    · have : sz first next isFirst = 0 ∨ md.length < sz first next isFirst := Or.inr hlt
      simp [this]
    · have hc : ¬ (sz first next isFirst = 0 ∨ md.length < sz first next isFirst) := by omega
      simp only [hc, dite_false, List.cons_append]
      rw [gen_unfold first next isFirst md d hs (by omega)]
      have htl : (md.take (sz first next isFirst)).length = sz first next isFirst := by
        simp; omega
      simp only [htl, Nat.lt_irrefl, if_false, List.length_nil, List.drop_zero]
      congr 1
      · congr 1
        simp only [List.length_drop]
        rw [Bool.eq_iff_iff]
        simp only [Bool.and_eq_true, beq_iff_eq]
        omega
      · exact ih _ (by simp; omega) false _ rfl

theorem mdLoop_short (first next : Nat) (hf : 0 < first) (hn : 0 < next) (dE isFirst : Bool) (md : List α) :
    (mdLoop first next dE isFirst md).2.1.length < sz first next (mdLoop first next dE isFirst md).2.2 := by
  induction hlen : md.length using Nat.strong_induction_on generalizing md isFirst with
  | _ n ih =>
    have hs : 0 < sz first next isFirst := by cases isFirst <;> simp [sz, hf, hn]
    rw [mdLoop]
    by_cases hlt : md.length < sz first next isFirst
    · have : sz first next isFirst = 0 ∨ md.length < sz first next isFirst := Or.inr hlt
      simp [this, hlt]
    · have hc : ¬ (sz first next isFirst = 0 ∨ md.length < sz first next isFirst) := by omega
      simp only [hc, dite_false]
      exact ih _ (by simp; omega) false _ rfl

/-- The transcription of the three-phase loop equals the uniform recursion. -/
theorem fragments_eq_gen (first next : Nat) (hf : 0 < first) (hn : 0 < next) (md d : List α)
    (hne : 0 < md.length + d.length) :
    fragments first next md d = gen first next true md d := by
  rw [gen_md_phase first next hf hn true md d]
  unfold fragments
  have h0 : ¬ (md.length = 0 ∧ d.length = 0) := by omega
  simp only [h0, if_false]
  have hshort := mdLoop_short first next hf hn (d.length == 0) true md
  generalize (mdLoop first next (d.length == 0) true md) = r at hshort ⊢
  obtain ⟨fs, lastMd, isF⟩ := r
  simp only at hshort ⊢
  rw [List.append_assoc]
  congr 1
  have hs : 0 < sz first next isF := by omega
  by_cases hall : lastMd.length = 0 ∧ d.length = 0
  · have h1 : lastMd = [] := List.eq_nil_of_length_eq_zero hall.1
    have h2 : d = [] := List.eq_nil_of_length_eq_zero hall.2
    subst h1 h2
    simp [gen_nil]
  · rw [gen_unfold first next isF lastMd d hs (by omega)]
    have htake : lastMd.take (sz first next isF) = lastMd := List.take_of_length_le (by omega)
    have hdrop : lastMd.drop (sz first next isF) = [] := List.drop_of_length_le (by omega)
    simp only [htake, hdrop, hshort, if_true, List.length_nil, beq_self_eq_true, Bool.true_and]
    rw [gen_data_eq_dLoop first next hn]
    generalize he : sz first next isF - lastMd.length = e
    have he1 : 1 ≤ e := by omega
    by_cases hle : d.length ≤ e
    · have ht : d.take e = d := List.take_of_length_le hle
      have hd : d.drop e = [] := List.drop_of_length_le hle
      have hy : (decide (0 < lastMd.length) || decide (0 < d.length)) = true := by
        simp only [Bool.or_eq_true, decide_eq_true_eq]; omega
      simp only [ht, hd, hy, if_true, List.length_nil, beq_self_eq_true, Bool.and_self, Bool.true_or,
        List.append_nil, List.drop_length]
      simp [dLoop]
    · have hl : (d.take e).length = e := by simp; omega
      have hr : ¬ ((d.drop e).length = 0) := by simp; omega
      have hy : (decide (0 < lastMd.length) || decide (0 < (d.take e).length)) = true := by
        simp only [hl, Bool.or_eq_true, decide_eq_true_eq]; omega
      have h1 : (0 < lastMd.length ∨ 0 < e) := Or.inr (by omega)
      have h2 : ¬ (d.length - e = 0) := by omega
      simp [hl, h1, h2]
      omega

end RSocketModel.Fragment
