import RSocketModel.Proofs.Fragment
namespace RSocketModel.Fragment
variable {α : Type}

/-! ### Structural facts about `gen` -/

theorem sz_pos (first next : Nat) (hf : 0 < first) (hn : 0 < next) (b : Bool) : 0 < sz first next b := by
  cases b <;> simp [sz, hf, hn]

theorem gen_eq_nil_iff (first next : Nat) (hf : 0 < first) (hn : 0 < next) (b : Bool) (md d : List α) :
    gen first next b md d = [] ↔ (md.length = 0 ∧ d.length = 0) := by
  have hs := sz_pos first next hf hn b
  constructor
  · intro h
    by_cases hne : 0 < md.length + d.length
    · rw [gen_unfold first next b md d hs hne] at h; simp at h
    · omega
  · intro h
    rw [gen]; simp [h]

/-- the chunk of data taken by a fragment -/
def ddOf (size : Nat) (md d : List α) : List α :=
  if (md.take size).length < size then d.take (size - (md.take size).length) else []

theorem gen_cons (first next : Nat) (hf : 0 < first) (hn : 0 < next) (b : Bool) (md d : List α)
    (hne : 0 < md.length + d.length) :
    gen first next b md d =
      { md := md.take (sz first next b), d := ddOf (sz first next b) md d,
        isLast := (md.drop (sz first next b)).length == 0 && (d.drop (ddOf (sz first next b) md d).length).length == 0,
        isFirst := b } ::
      gen first next false (md.drop (sz first next b)) (d.drop (ddOf (sz first next b) md d).length) :=
  gen_unfold first next b md d (sz_pos first next hf hn b) hne

theorem ddOf_eq_take (size : Nat) (md d : List α) :
    ddOf size md d = d.take (ddOf size md d).length := by
  unfold ddOf; split <;> simp

theorem ddOf_len_le_d (size : Nat) (md d : List α) : (ddOf size md d).length ≤ d.length := by
  unfold ddOf; split <;> simp

theorem ddOf_append_drop (size : Nat) (md d : List α) :
    ddOf size md d ++ d.drop (ddOf size md d).length = d := by
  conv => lhs; arg 1; rw [ddOf_eq_take]
  exact List.take_append_drop _ _

theorem ddOf_length_le (size : Nat) (md d : List α) :
    (md.take size).length + (ddOf size md d).length ≤ size := by
  unfold ddOf; split <;> simp <;> omega

theorem ddOf_progress (size : Nat) (hs : 0 < size) (md d : List α) (hne : 0 < md.length + d.length) :
    0 < (md.take size).length + (ddOf size md d).length := by
  unfold ddOf
  by_cases hm : md.length = 0
  · have : md = [] := List.eq_nil_of_length_eq_zero hm
    subst this
    simp only [List.length_nil, Nat.zero_add] at hne
    simp [hs]
    omega
  · simp; omega

/-- measure decreases -/
theorem gen_measure (size : Nat) (hs : 0 < size) (md d : List α) (hne : 0 < md.length + d.length) :
    (md.drop size).length + (d.drop (ddOf size md d).length).length < md.length + d.length := by
  have := ddOf_progress size hs md d hne
  have hdd := ddOf_len_le_d size md d
  simp only [List.length_drop, List.length_take] at *
  omega

theorem gen_concat (first next : Nat) (hf : 0 < first) (hn : 0 < next) (b : Bool) (md d : List α) :
    (gen first next b md d).flatMap (·.md) = md ∧ (gen first next b md d).flatMap (·.d) = d := by
  induction hlen : md.length + d.length using Nat.strong_induction_on generalizing md d b with
  | _ n ih =>
    by_cases hne : 0 < md.length + d.length
    · rw [gen_cons first next hf hn b md d hne]
      have hm := gen_measure _ (sz_pos first next hf hn b) md d hne
      obtain ⟨h1, h2⟩ := ih _ (by omega) false (md.drop (sz first next b))
        (d.drop (ddOf (sz first next b) md d).length) rfl
      simp only [List.flatMap_cons, h1, h2, List.take_append_drop, true_and]
      exact ddOf_append_drop _ _ _
    · have h1 : md = [] := List.eq_nil_of_length_eq_zero (by omega)
      have h2 : d = [] := List.eq_nil_of_length_eq_zero (by omega)
      subst h1 h2
      simp [gen_nil]

/-- every fragment respects its budget and carries at least one byte -/
theorem gen_budget (first next : Nat) (hf : 0 < first) (hn : 0 < next) (b : Bool) (md d : List α) :
    ∀ fr ∈ gen first next b md d,
      fr.md.length + fr.d.length ≤ sz first next fr.isFirst ∧ 1 ≤ fr.md.length + fr.d.length := by
  induction hlen : md.length + d.length using Nat.strong_induction_on generalizing md d b with
  | _ n ih =>
    by_cases hne : 0 < md.length + d.length
    · rw [gen_cons first next hf hn b md d hne]
      have hm := gen_measure _ (sz_pos first next hf hn b) md d hne
      intro fr hfr
      simp only [List.mem_cons] at hfr
      rcases hfr with rfl | hfr
      · exact ⟨ddOf_length_le _ _ _, ddOf_progress _ (sz_pos first next hf hn b) md d hne⟩
      · exact ih _ (by omega) false _ _ rfl fr hfr
    · have h1 : md = [] := List.eq_nil_of_length_eq_zero (by omega)
      have h2 : d = [] := List.eq_nil_of_length_eq_zero (by omega)
      subst h1 h2
      simp [gen_nil]

/-- only the head may be a first fragment -/
theorem gen_not_first (first next : Nat) (hf : 0 < first) (hn : 0 < next) (md d : List α) :
    ∀ fr ∈ gen first next false md d, fr.isFirst = false := by
  induction hlen : md.length + d.length using Nat.strong_induction_on generalizing md d with
  | _ n ih =>
    by_cases hne : 0 < md.length + d.length
    · rw [gen_cons first next hf hn false md d hne]
      have hm := gen_measure _ (sz_pos first next hf hn false) md d hne
      intro fr hfr
      simp only [List.mem_cons] at hfr
      rcases hfr with rfl | hfr
      · rfl
      · exact ih _ (by omega) _ _ rfl fr hfr
    · have h1 : md = [] := List.eq_nil_of_length_eq_zero (by omega)
      have h2 : d = [] := List.eq_nil_of_length_eq_zero (by omega)
      subst h1 h2
      simp [gen_nil]

/-- `isLast` is set on exactly the final element -/
def LastOK : List (Frag α) → Prop
  | [] => True
  | x :: t => (x.isLast = t.isEmpty) ∧ LastOK t

theorem gen_lastOK (first next : Nat) (hf : 0 < first) (hn : 0 < next) (b : Bool) (md d : List α) :
    LastOK (gen first next b md d) := by
  induction hlen : md.length + d.length using Nat.strong_induction_on generalizing md d b with
  | _ n ih =>
    by_cases hne : 0 < md.length + d.length
    · rw [gen_cons first next hf hn b md d hne]
      have hm := gen_measure _ (sz_pos first next hf hn b) md d hne
      refine ⟨?_, ih _ (by omega) false _ _ rfl⟩
      simp only
      rw [Bool.eq_iff_iff]
      simp only [Bool.and_eq_true, beq_iff_eq, List.isEmpty_iff]
      exact (gen_eq_nil_iff first next hf hn false _ _).symm
    · have h1 : md = [] := List.eq_nil_of_length_eq_zero (by omega)
      have h2 : d = [] := List.eq_nil_of_length_eq_zero (by omega)
      subst h1 h2
      simp [gen_nil, LastOK]

/-- with no metadata left, no fragment carries metadata -/
theorem gen_no_md (first next : Nat) (hf : 0 < first) (hn : 0 < next) (b : Bool) (d : List α) :
    ∀ fr ∈ gen first next b [] d, fr.md = [] := by
  induction hlen : d.length using Nat.strong_induction_on generalizing d b with
  | _ n ih =>
    by_cases hne : 0 < d.length
    · rw [gen_cons first next hf hn b [] d (by simpa using hne)]
      have hm := gen_measure _ (sz_pos first next hf hn b) [] d (by simpa using hne)
      intro fr hfr
      simp only [List.mem_cons] at hfr
      rcases hfr with rfl | hfr
      · simp
      · simp only [List.drop_nil] at hfr
        simp only [List.drop_nil, List.length_nil, Nat.zero_add] at hm
        exact ih _ (by omega) false _ rfl fr hfr
    · have h2 : d = [] := List.eq_nil_of_length_eq_zero (by omega)
      subst h2
      simp [gen_nil]

/-- all metadata precedes any data -/
def MdBeforeD : List (Frag α) → Prop
  | [] => True
  | x :: t => (0 < x.d.length → ∀ y ∈ t, y.md = []) ∧ MdBeforeD t

theorem gen_mdBeforeD (first next : Nat) (hf : 0 < first) (hn : 0 < next) (b : Bool) (md d : List α) :
    MdBeforeD (gen first next b md d) := by
  induction hlen : md.length + d.length using Nat.strong_induction_on generalizing md d b with
  | _ n ih =>
    by_cases hne : 0 < md.length + d.length
    · rw [gen_cons first next hf hn b md d hne]
      have hm := gen_measure _ (sz_pos first next hf hn b) md d hne
      refine ⟨?_, ih _ (by omega) false _ _ rfl⟩
      intro hd
      simp only at hd
      have hshort : (md.take (sz first next b)).length < sz first next b := by
        by_contra hc
        unfold ddOf at hd
        rw [if_neg hc] at hd
        simp at hd
      have : md.drop (sz first next b) = [] := by
        apply List.drop_of_length_le
        simp only [List.length_take] at hshort
        omega
      rw [this]
      exact gen_no_md first next hf hn false _
    · have h1 : md = [] := List.eq_nil_of_length_eq_zero (by omega)
      have h2 : d = [] := List.eq_nil_of_length_eq_zero (by omega)
      subst h1 h2
      simp [gen_nil, MdBeforeD]

/-- if everything fits the first budget there is exactly one fragment -/
theorem gen_single (first next : Nat) (hf : 0 < first) (hn : 0 < next) (md d : List α)
    (hne : 0 < md.length + d.length) (hfit : md.length + d.length ≤ first) (hmd : md.length < first) :
    gen first next true md d = [{ md := md, d := d, isLast := true, isFirst := true }] := by
  rw [gen_cons first next hf hn true md d hne]
  have hsz : sz first next true = first := rfl
  have ht : md.take first = md := List.take_of_length_le (by omega)
  have hdr : md.drop first = [] := List.drop_of_length_le (by omega)
  have hdd : ddOf first md d = d := by
    unfold ddOf
    rw [ht]
    simp only [hmd, if_true]
    exact List.take_of_length_le (by omega)
  simp only [hsz, ht, hdr, hdd, List.drop_length, List.length_nil, beq_self_eq_true, Bool.and_self, gen_nil]

end RSocketModel.Fragment
