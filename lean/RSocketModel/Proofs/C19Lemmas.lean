import RSocketModel.Routing
/-! Helper definitions and lemmas for `Props/C19.lean` (moved out so that the property file holds only the property theorems). -/
namespace RSocketModel.Routing
open RSocketModel.Composite

/-- whether the gate lets the request through -/
def gateOpen (verifier : Option (Bytes → Item → Bool)) (route : Bytes) (items : List Item) : Bool :=
  match verifier with
  | none => true
  | some v => match firstAuth items with
    | none => false
    | some a => v route a

theorem dispatch_eq (r : Router) (v : Option (Bytes → Item → Bool)) (ty : ReqType) (items : List Item) (route : Bytes)
    (hr : requireRoute items = some route) :
    dispatch r v ty (some items) = if gateOpen v route items then routeTo r ty route else .error := by
  unfold dispatch gateOpen
  simp only [hr]
  cases v with
  | none => simp
  | some v => cases firstAuth items <;> simp

end RSocketModel.Routing

