import RSocketModel.Fragment
namespace RSocketModel.Fragment
variable {α : Type}

theorem FFrame.ext' (p q : FFrame α) (h1 : p.ty = q.ty) (h2 : p.sid = q.sid) (h3 : p.n = q.n)
    (h4 : p.follows = q.follows) (h5 : p.complete = q.complete) (h6 : p.next = q.next)
    (h7 : p.md = q.md) (h8 : p.d = q.d) : p = q := by
  cases p; cases q; simp_all

theorem Cache.get_set (c : Cache α) (sid : Nat) (m : FFrame α) : (c.set sid m).get? sid = some m := by
  simp [Cache.set, Cache.get?]

theorem Cache.erase_set (c : Cache α) (sid : Nat) (m : FFrame α) : (c.set sid m).erase sid = c.erase sid := by
  simp [Cache.set, Cache.erase, List.filter_cons, List.filter_filter]

theorem Cache.get_erase (c : Cache α) (sid : Nat) : (c.erase sid).get? sid = none := by
  simp only [Cache.erase, Cache.get?, Option.map_eq_none_iff, List.find?_eq_none]
  intro x hx
  simp only [List.mem_filter] at hx
  simpa using hx.2

theorem Cache.get_erase_ne (c : Cache α) (sid j : Nat) (h : j ≠ sid) : (c.erase sid).get? j = c.get? j := by
  simp only [Cache.erase, Cache.get?]
  congr 1
  induction c with
  | nil => rfl
  | cons x xs ih =>
    simp only [List.filter_cons]
    by_cases hx : x.1 = sid
    · have hne : ¬ (x.1 = j) := by omega
      simp only [hx, bne_self_eq_false, Bool.false_eq_true, if_false, List.find?_cons]
      rw [ih]
      have : (sid == j) = false := by simp; omega
      simp [this]
    · simp [hx, List.find?_cons, ih]

theorem Cache.get_set_ne (c : Cache α) (sid j : Nat) (m : FFrame α) (h : j ≠ sid) :
    (c.set sid m).get? j = c.get? j := by
  have h' : ¬ (sid = j) := fun e => h e.symm
  have := Cache.get_erase_ne c sid j h
  simp only [Cache.get?] at this
  simp [Cache.set, Cache.get?, List.find?_cons, h', this]

/-- what folding the continuation fragments into the frame under construction yields -/
def merged (acc : FFrame α) : List (FFrame α) → FFrame α
  | [] => acc
  | f :: t => merged (mergeOne acc f) t

/-- `follows` is set on all but the last frame -/
def FollowsOK : List (FFrame α) → Prop
  | [] => True
  | x :: t => (x.follows = !t.isEmpty) ∧ FollowsOK t

/-- Continuation fragments (all PAYLOAD, same stream, `follows` on all but the last) folded into
a frame under construction: every fragment but the last answers `pending`, the last returns the
merged frame and the cache entry is removed. -/
theorem appendAll_continuation (sid : Nat) (fs : List (FFrame α)) :
    ∀ (c : Cache α) (acc : FFrame α), fs ≠ [] → c.get? sid = some acc →
      (∀ f ∈ fs, f.sid = sid ∧ f.ty = Gen.tyPayload) → FollowsOK fs →
      appendAll c fs =
        (c.erase sid, List.replicate (fs.length - 1) .pending ++ [.frame (merged acc fs)]) := by
  induction fs with
  | nil => intro c acc h; exact absurd rfl h
  | cons f t ih =>
    intro c acc _ hget hall hfol
    obtain ⟨hfs, hfty⟩ := hall f (by simp)
    obtain ⟨hff, hft⟩ := hfol
    simp only [appendAll]
    cases t with
    | nil =>
      have hf0 : f.follows = false := by simpa using hff
      simp [append, hf0, hfs, hget, build, hfty, appendAll, merged]
    | cons g t' =>
      have hf1 : f.follows = true := by simpa using hff
      have hstep : append c f = (c.set sid (mergeOne acc f), .pending) := by
        simp [append, hf1, hfs, hget, build, hfty]
      rw [hstep]
      simp only
      have := ih (c.set sid (mergeOne acc f)) _ (by simp) (Cache.get_set _ _ _)
          (fun x hx => hall x (by simp [hx])) hft
      rw [this, Cache.erase_set]
      simp [merged, List.replicate_succ]

theorem merged_fields (acc : FFrame α) (fs : List (FFrame α)) :
    (merged acc fs).ty = acc.ty ∧ (merged acc fs).sid = acc.sid ∧ (merged acc fs).n = acc.n ∧
    (merged acc fs).follows = acc.follows ∧
    (merged acc fs).md = acc.md ++ fs.flatMap (·.md) ∧ (merged acc fs).d = acc.d ++ fs.flatMap (·.d) := by
  induction fs generalizing acc with
  | nil => simp [merged]
  | cons f t ih =>
    obtain ⟨h1, h2, h3, h4, h5, h6⟩ := ih (mergeOne acc f)
    simp only [merged, List.flatMap_cons]
    rw [h1, h2, h3, h4, h5, h6]
    simp [mergeOne, List.append_assoc]

theorem merged_last (acc : FFrame α) (fs : List (FFrame α)) (l : FFrame α) (h : fs.getLast? = some l) :
    (merged acc fs).complete = l.complete ∧
    (merged acc fs).next = if acc.ty == Gen.tyPayload then l.next else acc.next := by
  induction fs generalizing acc with
  | nil => simp at h
  | cons f t ih =>
    cases t with
    | nil =>
      simp only [List.getLast?_singleton, Option.some.injEq] at h
      subst h
      simp [merged, mergeOne]
    | cons g t' =>
      rw [List.getLast?_cons_cons] at h
      have := ih (mergeOne acc f) h
      simp only [merged] at this ⊢
      rw [this.1, this.2]
      simp only [mergeOne, true_and]
      split <;> rfl

end RSocketModel.Fragment
