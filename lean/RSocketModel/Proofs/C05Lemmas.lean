import RSocketModel.Proofs.SendQueue
/-! Helper definitions and lemmas for `Props/C05.lean` (moved out so that the property file holds only the property theorems). -/
namespace RSocketModel.SendQueue

variable {β : Type}

/-- What the code did before fix F3 (only the head was moved to the back): the completion `13`
overtakes fragments `11`, `12` of the same stream. Kept as a witness of the defect. -/
def stepHeadOnly (s : State β) : State β :=
  match s.queue with
  | [] => s
  | h :: t =>
    match h.frags with
    | [] => { s with queue := t }
    | [f] => { queue := t, wire := s.wire ++ [(h.sid, f)] }
    | f :: g :: rest => { queue := t ++ [{ h with frags := g :: rest }], wire := s.wire ++ [(h.sid, f)] }

end RSocketModel.SendQueue

