import RSocketModel.Codec
import RSocketModel.Proofs.Basic
namespace RSocketModel.Codec

@[simp] theorem R.bind_ok {α β : Type} (a : α) (f : α → R β) : (R.ok a >>= f) = f a := rfl
@[simp] theorem R.pure_eq {α : Type} (a : α) : (pure a : R α) = R.ok a := rfl

theorem testBits : ∀ i m b7 b6 b5 : Bool,
    testBit (flagsNat i m b7 b6 b5) 512 = i ∧ testBit (flagsNat i m b7 b6 b5) 256 = m ∧
    testBit (flagsNat i m b7 b6 b5) 128 = b7 ∧ testBit (flagsNat i m b7 b6 b5) 64 = b6 ∧
    testBit (flagsNat i m b7 b6 b5) 32 = b5 := by decide

theorem flagsNat_lt (i m b7 b6 b5 : Bool) : flagsNat i m b7 b6 b5 < 1024 := by
  cases i <;> cases m <;> cases b7 <;> cases b6 <;> cases b5 <;> decide

theorem parseHeader_mk (sid ty : Nat) (i m b7 b6 b5 : Bool) (rest : Bytes)
    (hs : sid < 2 ^ 31) (ht : ty < 64) :
    parseHeader (mkHeader sid ty i m b7 b6 b5 ++ rest) =
      some ({ sid := sid, ty := ty, ign := i, m := m, b7 := b7, b6 := b6, b5 := b5 }, rest) := by
  unfold parseHeader mkHeader
  have hF := flagsNat_lt i m b7 b6 b5
  generalize hFd : flagsNat i m b7 b6 b5 = F at hF
  have hd : (beBytes 4 sid ++ [UInt8.ofNat (ty * 4 + F / 256), UInt8.ofNat (F % 256)] ++ rest).drop 4
      = UInt8.ofNat (ty * 4 + F / 256) :: UInt8.ofNat (F % 256) :: rest := by
    rw [List.append_assoc, List.drop_append_of_le_length (by simp)]
    rw [List.drop_of_length_le (by simp)]; rfl
  have ht4 : (beBytes 4 sid ++ [UInt8.ofNat (ty * 4 + F / 256), UInt8.ofNat (F % 256)] ++ rest).take 4
      = beBytes 4 sid := by
    rw [List.append_assoc, List.take_append_of_le_length (by simp)]
    rw [List.take_of_length_le (by simp)]
  rw [hd]
  simp only [ht4]
  have h1 : (UInt8.ofNat (ty * 4 + F / 256)).toNat = ty * 4 + F / 256 := by
    simp only [UInt8.toNat_ofNat']; omega
  have h2 : (UInt8.ofNat (F % 256)).toNat = F % 256 := by
    simp only [UInt8.toNat_ofNat']; omega
  rw [h1, h2]
  have hfl : (ty * 4 + F / 256) % 4 * 256 + F % 256 = F := by omega
  have hty : (ty * 4 + F / 256) / 4 = ty := by omega
  have hsid : beVal (beBytes 4 sid) % 2 ^ 31 = sid := by
    rw [beVal_beBytes_of_lt 4 sid (by omega)]; omega
  rw [hfl, hty, hsid, ← hFd]
  obtain ⟨t1, t2, t3, t4, t5⟩ := testBits i m b7 b6 b5
  rw [t1, t2, t3, t4, t5]

theorem readBE_be (k n : Nat) (rest : Bytes) (h : n < 256 ^ k) :
    readBE k (beBytes k n ++ rest) = .ok (n, rest) := by
  unfold readBE
  have h1 : k ≤ (beBytes k n ++ rest).length := by simp
  rw [if_pos h1]
  have ht : (beBytes k n ++ rest).take k = beBytes k n := by
    rw [List.take_append_of_le_length (by simp), List.take_of_length_le (by simp)]
  have hd : (beBytes k n ++ rest).drop k = rest := by
    rw [List.drop_append_of_le_length (by simp), List.drop_of_length_le (by simp)]; rfl
  rw [ht, hd, beVal_beBytes_of_lt k n h]

theorem readString_pack (s rest : Bytes) (h : s.length < 128) :
    readString (Frame.packString s ++ rest) = .ok (s, rest) := by
  unfold readString Frame.packString
  have h1 : (UInt8.ofNat s.length).toNat = s.length := by
    simp only [UInt8.toNat_ofNat']; omega
  simp only [List.cons_append, h1, h, if_true]
  rw [List.take_append_of_le_length (by simp), List.take_of_length_le (by simp)]
  rw [List.drop_append_of_le_length (by simp), List.drop_of_length_le (by simp)]; rfl

theorem readMetadata_enc (md rest : Bytes) (h : md.length < 2 ^ 24) :
    readMetadata (!md.isEmpty) ((if (!md.isEmpty) = true then beBytes 3 md.length else []) ++ (md ++ rest)) = .ok (md, rest) := by
  unfold readMetadata
  cases md with
  | nil => simp
  | cons x xs =>
    simp only [List.isEmpty_cons, Bool.not_false, if_true]
    rw [readBE_be 3 _ _ (by simpa using h)]
    simp only [R.bind_ok, R.pure_eq]
    rw [List.take_append_of_le_length (by simp), List.take_of_length_le (by simp)]
    rw [List.drop_append_of_le_length (by simp), List.drop_of_length_le (by simp)]; rfl

theorem readPos_enc (p : Nat) (rest : Bytes) (h : p < 2 ^ 63) :
    readPos (beBytes 8 (p % 2 ^ 63) ++ rest) = .ok (p, rest) := by
  unfold readPos
  have : p % 2 ^ 63 = p := Nat.mod_eq_of_lt h
  rw [this, readBE_be 8 p rest (by omega)]
  simp only [R.bind_ok, R.pure_eq, this]

theorem take_append_len (a b : Bytes) : (a ++ b).take a.length = a := by
  rw [List.take_append_of_le_length (Nat.le_refl _), List.take_of_length_le (Nat.le_refl _)]

theorem drop_append_len (a b : Bytes) : (a ++ b).drop a.length = b := by
  rw [List.drop_append_of_le_length (Nat.le_refl _), List.drop_of_length_le (Nat.le_refl _)]; rfl

theorem md_if (md : Bytes) : (if (!md.isEmpty) = true then md else []) = md := by
  cases md <;> simp

theorem encode_eq (f : Frame) :
    encode f = mkHeader f.sid f.ty f.ign (!f.md.isEmpty) f.typeFlags.1 f.typeFlags.2.1 f.typeFlags.2.2 ++
      (f.middle ++ ((if (!f.md.isEmpty && !f.metadataOnly) = true then beBytes 3 f.md.length else []) ++
        (f.md ++ (if f.metadataOnly = true then [] else f.data)))) := by
  simp only [encode, prefixBytes, List.append_assoc]

end RSocketModel.Codec
