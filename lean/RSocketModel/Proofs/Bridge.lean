import RSocketModel.Props.C02
import RSocketModel.Props.C03
/-!
Bridge between the two frame records: the fragmentation model's `FFrame UInt8` (what travels
between fragmenter and fragment cache) and the byte-level codec's `Codec.Frame`. `encF` / `parseF`
are the codec restricted to the five payload-carrying frame types; `bridge` is the instance of
C02's round-trip that C01's composition needs.
-/
namespace RSocketModel.Pipeline

open Fragment

def toCodec (f : FFrame UInt8) : Codec.Frame :=
  if f.ty = Gen.tyRequestResponse then .requestResponse f.sid false f.follows f.md f.d
  else if f.ty = Gen.tyRequestFnf then .requestFnf f.sid false f.follows f.md f.d
  else if f.ty = Gen.tyRequestStream then .requestStream f.sid false f.follows f.n f.md f.d
  else if f.ty = Gen.tyRequestChannel then .requestChannel f.sid false f.follows f.complete f.n f.md f.d
  else .payload f.sid false f.follows f.complete f.next f.md f.d

def ofCodec : Codec.Frame → List (FFrame UInt8)
  | .requestResponse s _ fo md d => [⟨Gen.tyRequestResponse, s, 0, fo, false, false, md, d⟩]
  | .requestFnf s _ fo md d => [⟨Gen.tyRequestFnf, s, 0, fo, false, false, md, d⟩]
  | .requestStream s _ fo n md d => [⟨Gen.tyRequestStream, s, n, fo, false, false, md, d⟩]
  | .requestChannel s _ fo c n md d => [⟨Gen.tyRequestChannel, s, n, fo, c, false, md, d⟩]
  | .payload s _ fo c nx md d => [⟨Gen.tyPayload, s, 0, fo, c, nx, md, d⟩]
  | _ => []

/-- `Frame.serialize()` of the frame object a fragment is -/
def encF (f : FFrame UInt8) : Bytes := Codec.encode (toCodec f)

/-- `parse_or_ignore` followed by the receiver's view of the frame -/
def parseF (buf : Bytes) : List (FFrame UInt8) :=
  match Codec.decode buf with
  | .frame g => ofCodec g
  | _ => []

/-- a frame as it travels between fragmenter and cache: ranges of the wire format, flags only
where the type has them, `next` as the encoder forces it -/
def OnWire (f : FFrame UInt8) : Prop :=
  f.ty ∈ Gen.fragmentableTypes ∧ f.sid < 2 ^ 31 ∧ f.md.length < 2 ^ 24 ∧ f.n < 2 ^ 32 ∧
  (hasN f.ty = false → f.n = 0) ∧
  (f.complete = true → f.ty = Gen.tyRequestChannel ∨ f.ty = Gen.tyPayload) ∧
  f.next = (f.ty == Gen.tyPayload && (decide (0 < f.md.length) || decide (0 < f.d.length)))

theorem bridge (f : FFrame UInt8) (h : OnWire f) : parseF (encF f) = [f] := by
  obtain ⟨hty, hsid, hmd, hn, hn0, hc, hnext⟩ := h
  have hmem : f.ty = 4 ∨ f.ty = 5 ∨ f.ty = 6 ∨ f.ty = 7 ∨ f.ty = 10 := by
    simpa [Gen.fragmentableTypes] using hty
  unfold parseF encF
  have hwf : Codec.WF (toCodec f) := by
    unfold toCodec
    rcases hmem with h | h | h | h | h <;> simp [h, Gen.tyRequestResponse, Gen.tyRequestFnf, Gen.tyRequestStream,
      Gen.tyRequestChannel, Codec.WF] <;> omega
  rw [Codec.c02_decode_encode _ hwf]
  simp only
  cases f with
  | mk ty sid n follows complete next md d =>
    simp only at hmem hn0 hc hnext hsid hmd hn
    rcases hmem with h | h | h | h | h <;> subst h <;>
      simp [toCodec, Codec.canon, ofCodec, Gen.tyRequestResponse, Gen.tyRequestFnf, Gen.tyRequestStream,
        Gen.tyRequestChannel, Gen.tyPayload, hasN] at hn0 hc hnext ⊢
    · exact ⟨hn0.symm, by cases complete <;> simp_all, hnext⟩
    · exact ⟨hn0.symm, by cases complete <;> simp_all, hnext⟩
    · exact ⟨by cases complete <;> simp_all, hnext⟩
    · exact hnext
    · refine ⟨hn0.symm, ?_⟩
      rw [hnext]
      cases md <;> cases d <;> simp

end RSocketModel.Pipeline

namespace RSocketModel.Pipeline

open Fragment

/-- ranges of the wire format for a frame handed to the library -/
def WFBase (b : Base UInt8) : Prop :=
  b.ty ∈ Gen.fragmentableTypes ∧ b.sid < 2 ^ 31 ∧ b.md.length < 2 ^ 24 ∧ b.n < 2 ^ 32 ∧
  (b.complete = true → b.ty = Gen.tyRequestChannel ∨ b.ty = Gen.tyPayload)

theorem length_le_flatMap {β γ : Type} (f : β → List γ) (l : List β) (y : β) (hy : y ∈ l) :
    (f y).length ≤ (l.flatMap f).length := by
  induction l with
  | nil => simp at hy
  | cons x r ih =>
    simp only [List.mem_cons] at hy
    simp only [List.flatMap_cons, List.length_append]
    rcases hy with rfl | hy
    · omega
    · have := ih hy; omega

/-- every fragment of a well-formed frame is a legal wire frame -/
theorem onWire_toFrames (b : Base UInt8) (F : Nat) (lp : Bool) (hF : Gen.minimumFragmentSize ≤ F) (hb : WFBase b) :
    ∀ y ∈ toFrames b F lp, OnWire y := by
  obtain ⟨hty, hsid, hmd, hn, hc⟩ := hb
  intro y hy
  have hmdle : y.md.length ≤ b.md.length := by
    have := (c03_concat b F lp hty hF).1
    rw [← this]; exact length_le_flatMap (·.md) _ y hy
  have hmem : b.ty = 4 ∨ b.ty = 5 ∨ b.ty = 6 ∨ b.ty = 7 ∨ b.ty = 10 := by
    simpa [Gen.fragmentableTypes] using hty
  unfold toFrames at hy
  simp only [List.mem_map] at hy
  obtain ⟨fr, _, rfl⟩ := hy
  simp only [toFrame] at hmdle ⊢
  refine ⟨?_, hsid, by show fr.md.length < 2 ^ 24; omega, ?_, ?_, ?_, rfl⟩
  · split
    · exact hty
    · simp [Gen.fragmentableTypes, Gen.tyPayload]
  · show (if hasN (if fr.isFirst = true then b.ty else Gen.tyPayload) = true then b.n else 0) < 2 ^ 32
    split <;> split <;> omega
  · intro h
    show (if hasN (if fr.isFirst = true then b.ty else Gen.tyPayload) = true then b.n else 0) = 0
    simp [h]
  · intro h
    change (if fr.isLast = true then b.complete else false) = true at h
    show (if fr.isFirst = true then b.ty else Gen.tyPayload) = Gen.tyRequestChannel ∨
      (if fr.isFirst = true then b.ty else Gen.tyPayload) = Gen.tyPayload
    split at h
    · have := hc h
      split
      · exact this
      · right; rfl
    · cases h

/-- the serialised length is the wire size the fragmenter budgets for -/
theorem encF_length (f : FFrame UInt8) (hty : f.ty ∈ Gen.fragmentableTypes) : (encF f).length = wireSize f false := by
  have hmem : f.ty = 4 ∨ f.ty = 5 ∨ f.ty = 6 ∨ f.ty = 7 ∨ f.ty = 10 := by
    simpa [Gen.fragmentableTypes] using hty
  unfold encF toCodec wireSize wireHeader
  rcases hmem with h | h | h | h | h <;>
    simp [h, Gen.tyRequestResponse, Gen.tyRequestFnf, Gen.tyRequestStream, Gen.tyRequestChannel, Codec.encode,
      Codec.prefixBytes, Codec.mkHeader, Codec.Frame.md, Codec.Frame.data, Codec.Frame.metadataOnly, Codec.Frame.middle,
      hasN, lpBytes, Codec.Frame.sid, Codec.Frame.ty, Codec.Frame.ign, Codec.Frame.typeFlags] <;>
    (cases hm : f.md <;> simp <;> omega)

end RSocketModel.Pipeline
