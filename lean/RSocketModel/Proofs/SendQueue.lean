import RSocketModel.SendQueue
namespace RSocketModel.SendQueue

variable {β : Type}

theorem pending_append (sid : Nat) (a b : Queue β) : pending sid (a ++ b) = pending sid a ++ pending sid b := by
  simp [pending, List.filter_append, List.flatMap_append]

theorem pending_cons (sid : Nat) (h : Src β) (t : Queue β) :
    pending sid (h :: t) = (if h.sid == sid then h.frags else []) ++ pending sid t := by
  simp only [pending, List.filter_cons]
  split <;> simp

theorem pending_cycle (sid x : Nat) (q : Queue β) : pending sid (cycle x q) = pending sid q := by
  unfold cycle
  rw [pending_append]
  simp only [pending, List.filter_filter]
  by_cases h : sid = x
  · subst h
    have h1 : (q.filter fun a => (a.sid == sid && a.sid != sid)) = [] := by
      apply List.filter_eq_nil_iff.mpr; intro a _; simp
    have h2 : (q.filter fun a => (a.sid == sid && a.sid == sid)) = q.filter (fun a => a.sid == sid) := by
      congr 1; funext a; simp
    rw [h1, h2]; simp
  · have h1 : (q.filter fun a => (a.sid == sid && a.sid != x)) = q.filter (fun a => a.sid == sid) := by
      apply List.filter_congr; intro a _
      by_cases ha : a.sid = sid
      · simp [ha, h]
      · simp [ha]
    have h2 : (q.filter fun a => (a.sid == sid && a.sid == x)) = [] := by
      apply List.filter_eq_nil_iff.mpr; intro a _
      by_cases ha : a.sid = sid
      · simp [ha, h]
      · simp [ha]
    rw [h1, h2]; simp

theorem wireOf_append (sid : Nat) (a b : List (Nat × β)) : wireOf sid (a ++ b) = wireOf sid a ++ wireOf sid b := by
  simp [wireOf, List.filter_append]

theorem wireOf_single (sid s : Nat) (f : β) : wireOf sid [(s, f)] = if s == sid then [f] else [] := by
  simp only [wireOf, List.filter_cons, List.filter_nil]
  split <;> simp

/-- a sender step moves one fragment of one stream from `pending` to the wire and touches no
other stream -/
theorem step_preserves (sid : Nat) (s : State β) :
    wireOf sid (step s).wire ++ pending sid (step s).queue = wireOf sid s.wire ++ pending sid s.queue := by
  unfold step
  cases hq : s.queue with
  | nil => simp [hq]
  | cons h t =>
    simp only
    cases hf : h.frags with
    | nil => simp [pending_cons, hf]
    | cons f rest =>
      cases rest with
      | nil =>
        simp only [wireOf_append, wireOf_single, pending_cons, hf, List.append_assoc] <;>
          (by_cases hs : h.sid = sid <;> simp [hs])
      | cons g rest' =>
        simp only [wireOf_append, wireOf_single, pending_cycle, pending_cons, hf, List.append_assoc] <;>
          (by_cases hs : h.sid = sid <;> simp [hs])

theorem queuedFor_append (sid : Nat) (a b : List (Ev β)) : queuedFor sid (a ++ b) = queuedFor sid a ++ queuedFor sid b := by
  induction a with
  | nil => rfl
  | cons e es ih => cases e <;> simp [queuedFor, ih]

/-- legality of an event sequence from a state: sources have at least one fragment, and a
priority frame is only queued for a stream that has nothing queued -/
def Legal : State β → List (Ev β) → Prop
  | _, [] => True
  | s, ev :: es =>
    (match ev with
      | .enq src => src.frags ≠ []
      | .enqFront src => src.frags ≠ [] ∧ pending src.sid s.queue = []
      | .step => True) ∧ Legal (apply s ev) es

theorem run_order (sid : Nat) (evs : List (Ev β)) : ∀ s, Legal s evs →
    wireOf sid (run s evs).wire ++ pending sid (run s evs).queue
      = wireOf sid s.wire ++ pending sid s.queue ++ queuedFor sid evs := by
  induction evs with
  | nil => intro s _; simp [run, queuedFor]
  | cons ev es ih =>
    intro s hl
    obtain ⟨hev, hrest⟩ := hl
    have := ih (apply s ev) hrest
    simp only [run, List.foldl_cons] at this ⊢
    rw [this]
    cases ev with
    | enq src =>
      simp only [apply, pending_append, pending_cons, queuedFor, List.append_assoc]
      simp [pending]
    | enqFront src =>
      simp only [apply, pending_cons, queuedFor]
      by_cases h : src.sid = sid
      · subst h
        simp only [beq_self_eq_true, if_true]
        rw [hev.2]; simp
      · have : (src.sid == sid) = false := by simpa using h
        simp [this]
    | step =>
      simp only [apply, queuedFor]
      rw [step_preserves]

def AllNonempty (q : Queue β) : Prop := ∀ src ∈ q, src.frags ≠ []

theorem total_append (a b : Queue β) : total (a ++ b) = total a + total b := by simp [total]

theorem total_cycle (x : Nat) (q : Queue β) : total (cycle x q) = total q := by
  unfold cycle
  rw [total_append]
  induction q with
  | nil => rfl
  | cons h t ih =>
    simp only [List.filter_cons]
    by_cases hx : h.sid = x
    · simp [hx, total] at ih ⊢; omega
    · simp [hx, total] at ih ⊢; omega

theorem allNonempty_cycle (x : Nat) (q : Queue β) (h : AllNonempty q) : AllNonempty (cycle x q) := by
  intro src hs
  simp only [cycle, List.mem_append, List.mem_filter] at hs
  rcases hs with hs | hs <;> exact h src hs.1

theorem step_total (s : State β) (hne : s.queue ≠ []) (hall : AllNonempty s.queue) :
    total (step s).queue + 1 = total s.queue ∧ AllNonempty (step s).queue ∧
      (step s).wire.length = s.wire.length + 1 := by
  unfold step
  cases hq : s.queue with
  | nil => exact absurd hq hne
  | cons h t =>
    rw [hq] at hall
    simp only
    cases hf : h.frags with
    | nil => exact absurd hf (hall h (by simp))
    | cons f rest =>
      cases rest with
      | nil =>
        refine ⟨by simp [total, hf]; omega, fun src hs => hall src (by simp [hs]), by simp⟩
      | cons g rest' =>
        refine ⟨?_, ?_, by simp⟩
        · rw [total_cycle]; simp [total, hf]; omega
        · apply allNonempty_cycle
          intro src hs
          simp only [List.mem_cons] at hs
          rcases hs with rfl | hs
          · simp
          · exact hall src (by simp [hs])

theorem total_zero (q : Queue β) (hall : AllNonempty q) (h0 : total q = 0) : q = [] := by
  cases q with
  | nil => rfl
  | cons h t =>
    have := hall h (by simp)
    cases hf : h.frags with
    | nil => exact absurd hf this
    | cons f r => simp [total, hf] at h0

end RSocketModel.SendQueue
