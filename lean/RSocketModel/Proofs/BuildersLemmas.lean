import RSocketModel.Props.C02
/-! helper lemmas for `Props/C02Builders.lean` -/
namespace RSocketModel.Builders
open RSocketModel.Codec

/-- what `canon` leaves alone -/
theorem canon_keeps (f : Frame) :
    (canon f).ty = f.ty ∧ (canon f).sid = f.sid ∧ (canon f).md = f.md ∧ (canon f).data = f.data ∧ (canon f).ign = f.ign := by
  cases f <;> simp [canon, Frame.ty, Frame.sid, Frame.md, Frame.data, Frame.ign]


end RSocketModel.Builders
