import RSocketModel.Composite
import RSocketModel.Proofs.Basic
namespace RSocketModel.Composite

@[simp] theorem R.bind_ok {α β : Type} (a : α) (f : α → R β) : (R.ok a).bind f = f a := rfl
@[simp] theorem R.bind_ok' {α β : Type} (a : α) (f : α → R β) : (R.ok a >>= f) = f a := rfl
@[simp] theorem R.pure_eq {α : Type} (a : α) : (pure a : R α) = R.ok a := rfl

/-- consistency of a (id, name) table: ids fit 7 bits and both lookups invert each other on
every row -/
def TableOK (t : Table) : Prop :=
  ∀ p ∈ t, p.1 < 128 ∧ lookupName t p.1 = some p.2 ∧ lookupId t p.2 = some p.1

instance (t : Table) : Decidable (TableOK t) := by unfold TableOK; infer_instance

/-- a MIME name within the format's limits: a well-known name, or 1–128 bytes -/
def WFName (t : Table) (name : Bytes) : Prop :=
  (lookupId t name).isSome ∨ (1 ≤ name.length ∧ name.length ≤ 128)

theorem take_append_len (a b : Bytes) : (a ++ b).take a.length = a := by
  rw [List.take_append_of_le_length (Nat.le_refl _), List.take_of_length_le (Nat.le_refl _)]

theorem drop_append_len (a b : Bytes) : (a ++ b).drop a.length = b := by
  rw [List.drop_append_of_le_length (Nat.le_refl _), List.drop_of_length_le (Nat.le_refl _)]; rfl

theorem lookupId_mem (t : Table) (name : Bytes) (id : Nat) (h : lookupId t name = some id) :
    (id, name) ∈ t := by
  unfold lookupId at h
  cases hf : t.find? (·.2 == name) with
  | none => simp [hf] at h
  | some p =>
    simp only [hf, Option.map_some, Option.some.injEq] at h
    have hm := List.mem_of_find?_eq_some hf
    have hp := List.find?_some hf
    simp only [beq_iff_eq] at hp
    rw [← h, ← hp]
    exact hm

theorem decodeMime_encodeMime (t : Table) (ht : TableOK t) (name e rest : Bytes)
    (hwf : WFName t name) (he : encodeMime t name = some e) :
    decodeMime t (e ++ rest) = .ok (name, rest) := by
  unfold encodeMime at he
  cases hl : lookupId t name with
  | some id =>
    simp only [hl, Option.some.injEq] at he
    subst he
    have hmem := lookupId_mem t name id hl
    obtain ⟨hid, hname, _⟩ := ht _ hmem
    simp only at hid hname
    have hb : (UInt8.ofNat (128 + id % 128)).toNat = 128 + id := by
      simp only [UInt8.toNat_ofNat']; omega
    simp only [decodeMime, List.cons_append, List.nil_append, hb]
    have : 128 ≤ 128 + id := by omega
    simp only [this, if_true, Nat.add_sub_cancel_left, hname]
  | none =>
    simp only [hl] at he
    have hlen : 1 ≤ name.length ∧ name.length ≤ 128 := by
      rcases hwf with h | h
      · simp [hl] at h
      · exact h
    have h1 : ¬ (128 < name.length) := by omega
    simp only [h1, if_false, Option.some.injEq] at he
    subst he
    have hb : (UInt8.ofNat ((name.length + 127) % 128)).toNat = name.length - 1 := by
      simp only [UInt8.toNat_ofNat']; omega
    simp only [decodeMime, List.cons_append, hb]
    have h2 : ¬ (128 ≤ name.length - 1) := by omega
    have h3 : name.length - 1 + 1 = name.length := by omega
    simp only [h2, if_false, h3, take_append_len, drop_append_len]

theorem encodeMime_length_pos (t : Table) (name e : Bytes) (he : encodeMime t name = some e) : 1 ≤ e.length := by
  unfold encodeMime at he
  split at he
  · simp only [Option.some.injEq] at he; subst he; simp
  · split at he
    · exact absurd he (by simp)
    · simp only [Option.some.injEq] at he; subst he; simp

/-- tags -/
theorem decodeTags_encodeTags (tags : List Bytes) (e : Bytes) (he : encodeTags tags = some e) :
    decodeTags e = tags := by
  induction tags generalizing e with
  | nil =>
    simp only [encodeTags, Option.some.injEq] at he
    subst he
    rw [decodeTags]
  | cons tag rest ih =>
    simp only [encodeTags] at he
    split at he
    · exact absurd he (by simp)
    · rename_i hlen
      cases hr : encodeTags rest with
      | none => simp [hr] at he
      | some r =>
        simp only [hr, Option.map_some, Option.some.injEq] at he
        subst he
        rw [List.cons_append, decodeTags.eq_def]
        have hb : (UInt8.ofNat tag.length).toNat = tag.length := by
          simp only [UInt8.toNat_ofNat']; omega
        simp only [hb, take_append_len, drop_append_len, ih r hr]

theorem decodeMimes_nil (t : Table) : decodeMimes t [] = .ok [] := by
  rw [decodeMimes]; simp

theorem decodeMimes_encodeMimes (t : Table) (ht : TableOK t) (ms : List Bytes) (e : Bytes)
    (hwf : ∀ m ∈ ms, WFName t m) (he : encodeMimes t ms = some e) :
    decodeMimes t e = .ok ms := by
  induction ms generalizing e with
  | nil =>
    simp only [encodeMimes, Option.some.injEq] at he
    subst he
    exact decodeMimes_nil t
  | cons m rest ih =>
    simp only [encodeMimes] at he
    cases ha : encodeMime t m with
    | none => simp [ha] at he
    | some a =>
      cases hb : encodeMimes t rest with
      | none => simp [ha, hb] at he
      | some b =>
        simp only [ha, hb, Option.bind_eq_bind, Option.bind_some, Option.pure_def, Option.some.injEq] at he
        subst he
        have hpos := encodeMime_length_pos t m a ha
        rw [decodeMimes]
        have h0 : ¬ ((a ++ b).length = 0) := by rw [List.length_append]; omega
        simp only [h0, dite_false]
        rw [decodeMime_encodeMime t ht m a b (hwf m (by simp)) ha]
        simp only
        have hl : b.length < (a ++ b).length := by rw [List.length_append]; omega
        simp only [hl, dite_true]
        rw [ih b (fun x hx => hwf x (by simp [hx])) hb]
        simp

end RSocketModel.Composite
