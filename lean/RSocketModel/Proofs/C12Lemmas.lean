import RSocketModel.Engine.Invariants
/-! Helper definitions and lemmas for `Props/C12.lean` (moved out so that the property file holds only the property theorems). -/
namespace RSocketModel.Engine

/-- every frame queued while processing a received frame is on that frame's stream -/
theorem frameReceived_sends (st : State) (oid : Nat) (s : Stream) (f : Frame) :
    ∀ g, Out.send g ∈ (frameReceived st oid s f).2 → g.sid = f.sid := by
  unfold frameReceived
  cases s.kind <;> simp only <;> cases f.ty <;> simp only <;> (repeat' split) <;> simp [mkError]

theorem handleByType_sends (st : State) (f : Frame) (b : Behaviour) (hd : f.sid = 0 ∨ isInitiate f.ty = true) :
    ∀ g, Out.send g ∈ (handleByType st f b).2 → g.sid = f.sid := by
  unfold handleByType
  cases hty : f.ty <;> simp only
  case requestResponse => split <;> (try cases b) <;> simp only <;> (repeat' split) <;> simp_all [mkError]
  case requestStream => split <;> (try cases b) <;> simp only <;> (repeat' split) <;> simp_all [mkError]
  case requestFnf => split <;> (try cases b) <;> simp_all [mkError]
  case requestChannel =>
    split
    · simp [mkError]
    · cases b <;> simp only <;> (try simp [mkError])
      rename_i hasPub hasSub
      split
      · simp [mkError]; omega
      · cases hasPub <;> cases hasSub <;> cases f.complete <;> simp [mkPayload]
  case setup =>
    have h0 : f.sid = 0 := by rcases hd with h | h; exact h; simp [hty, isInitiate] at h
    (repeat' split) <;> simp_all [mkError]
  case metadataPush =>
    have h0 : f.sid = 0 := by rcases hd with h | h; exact h; simp [hty, isInitiate] at h
    cases b <;> simp_all [mkError]
  case resume =>
    have h0 : f.sid = 0 := by rcases hd with h | h; exact h; simp [hty, isInitiate] at h
    simp_all [mkError]
  case keepalive => split <;> simp
  all_goals simp

theorem find_filter_ne (l : List (Nat × Nat)) (sid j : Nat) (h : j ≠ sid) :
    (l.filter (·.1 != sid)).find? (·.1 == j) = l.find? (·.1 == j) := by
  induction l with
  | nil => rfl
  | cons p rest ih =>
    by_cases hp : p.1 = sid
    · have hb : (p.1 != sid) = false := by simp [hp]
      have hj : (p.1 == j) = false := by simp; omega
      simp only [List.filter_cons, hb, Bool.false_eq_true, if_false, List.find?_cons, hj]
      exact ih
    · have hb : (p.1 != sid) = true := by simp [hp]
      simp only [List.filter_cons, hb, if_true, List.find?_cons]
      cases hpj : (p.1 == j)
      · exact ih
      · rfl

@[simp] theorem oidOf_setObj (st : State) (oid : Nat) (s : Stream) (j : Nat) : (st.setObj oid s).oidOf j = st.oidOf j := rfl

theorem oidOf_finish_ne (st : State) (sid j : Nat) (h : j ≠ sid) : (st.finish sid).oidOf j = st.oidOf j := by
  simp only [State.oidOf, State.finish]
  rw [find_filter_ne _ _ _ h]

theorem oidOf_unregister_ne (st : State) (sid j : Nat) (h : j ≠ sid) : (st.unregister sid).oidOf j = st.oidOf j :=
  oidOf_finish_ne st sid j h

theorem oidOf_markChannel_ne (st : State) (oid : Nat) (s : Stream) (r t : Bool) (j : Nat) (h : j ≠ s.sid) :
    (markChannel st oid s r t).oidOf j = st.oidOf j := by
  simp only [markChannel]
  split
  · rw [oidOf_finish_ne _ _ _ h]; rfl
  · rfl

theorem oidOf_register_ne (st : State) (s : Stream) (j : Nat) (h : j ≠ s.sid) : (st.register s).1.oidOf j = st.oidOf j := by
  simp only [State.oidOf, State.register, List.find?_append]
  rw [find_filter_ne _ _ _ h]
  have : ¬ (s.sid = j) := fun e => h e.symm
  cases st.table.find? (·.1 == j) <;> simp [this]

theorem oidOf_frameReceived_ne (st : State) (oid : Nat) (s : Stream) (f : Frame) (j : Nat) (h : j ≠ s.sid) :
    (frameReceived st oid s f).1.oidOf j = st.oidOf j := by
  unfold frameReceived
  cases s.kind <;> simp only <;> cases f.ty <;> simp only <;> (repeat' split) <;>
    simp [oidOf_finish_ne _ _ _ h, oidOf_markChannel_ne _ _ _ _ _ _ h]

theorem oidOf_cacheAppend (st : State) (f : Frame) (j : Nat) : (cacheAppend st f).1.oidOf j = st.oidOf j := by
  unfold cacheAppend
  simp only
  (repeat' split) <;> rfl

theorem oidOf_handleByType_ne (st : State) (f : Frame) (b : Behaviour) (j : Nat) (h : j ≠ f.sid) :
    (handleByType st f b).1.oidOf j = st.oidOf j := by
  have hr : ∀ s : Stream, s.sid = f.sid → (st.register s).1.oidOf j = st.oidOf j :=
    fun s hs => oidOf_register_ne st s j (by rw [hs]; exact h)
  unfold handleByType
  cases f.ty <;> simp only
  case requestResponse => split <;> (try cases b) <;> simp only <;> (repeat' split) <;> (first | rfl | exact hr _ rfl)
  case requestStream => split <;> (try cases b) <;> simp only <;> (repeat' split) <;> (first | rfl | exact hr _ rfl)
  case requestFnf => split <;> (try cases b) <;> rfl
  case setup => (repeat' split) <;> rfl
  case metadataPush => cases b <;> rfl
  case requestChannel =>
    split
    · rfl
    · cases b <;> simp only <;> (try rfl)
      rename_i hasPub hasSub
      split
      · rfl
      · have hm : ∀ (st' : State) (oid : Nat) (s : Stream) (r t : Bool), s.sid = f.sid →
            (markChannel st' oid s r t).oidOf j = st'.oidOf j :=
          fun st' oid s r t hs => oidOf_markChannel_ne st' oid s r t j (by rw [hs]; exact h)
        generalize hreg : st.register { kind := .chResp, sid := f.sid, hasPub := hasPub, subscribed := hasSub, setupDone := true } = r
        have h0 : r.1.oidOf j = st.oidOf j := by rw [← hreg]; exact hr _ rfl
        have ho : r.1.obj r.2 = some { kind := .chResp, sid := f.sid, hasPub := hasPub, subscribed := hasSub, setupDone := true } := by
          rw [← hreg]; exact obj_register st _
        rcases r with ⟨st0, oid⟩
        simp only at h0 ho ⊢
        cases hasSub <;> cases hasPub <;> cases f.complete <;>
          simp [ho, markChannel_obj, hm, h0]
  all_goals rfl

theorem oidOf_stopOne_ne (st : State) (sid oid j : Nat) (h : j ≠ sid) : (stopOne st sid oid).1.oidOf j = st.oidOf j := by
  unfold stopOne
  (repeat' split) <;> simp [oidOf_finish_ne _ _ _ h, oidOf_unregister_ne _ _ _ h]

/-! ### the reassembly cache, stream by stream -/

/-- the partial frame(s) the reassembly cache holds for stream `j` -/
def State.partialOf (st : State) (j : Nat) : List (Nat × Frame) := st.cache.filter (·.1 == j)

theorem filter_filter_ne {α : Type} (l : List (Nat × α)) (sid j : Nat) (h : j ≠ sid) :
    (l.filter (·.1 != sid)).filter (·.1 == j) = l.filter (·.1 == j) := by
  rw [List.filter_filter]
  apply List.filter_congr
  intro x _
  by_cases hx : x.1 = j
  · have : x.1 ≠ sid := by rw [hx]; exact h
    simp [hx]; intro e; exact absurd (hx ▸ e) h
  · simp [hx]

theorem partialOf_finish_ne (st : State) (sid j : Nat) (h : j ≠ sid) : (st.finish sid).partialOf j = st.partialOf j := by
  simp only [State.partialOf, State.finish]
  exact filter_filter_ne _ _ _ h

@[simp] theorem partialOf_unregister (st : State) (sid j : Nat) : (st.unregister sid).partialOf j = st.partialOf j := rfl
@[simp] theorem partialOf_setObj (st : State) (oid : Nat) (s : Stream) (j : Nat) : (st.setObj oid s).partialOf j = st.partialOf j := rfl
@[simp] theorem partialOf_register (st : State) (s : Stream) (j : Nat) : (st.register s).1.partialOf j = st.partialOf j := rfl

theorem partialOf_markChannel_ne (st : State) (oid : Nat) (s : Stream) (r t : Bool) (j : Nat) (h : j ≠ s.sid) :
    (markChannel st oid s r t).partialOf j = st.partialOf j := by
  simp only [markChannel]
  split
  · rw [partialOf_finish_ne _ _ _ h]; rfl
  · rfl

theorem partialOf_frameReceived_ne (st : State) (oid : Nat) (s : Stream) (f : Frame) (j : Nat) (h : j ≠ s.sid) :
    (frameReceived st oid s f).1.partialOf j = st.partialOf j := by
  unfold frameReceived
  cases s.kind <;> simp only <;> cases f.ty <;> simp only <;> (repeat' split) <;>
    simp [partialOf_finish_ne _ _ _ h, partialOf_markChannel_ne _ _ _ _ _ _ h]

theorem partialOf_cacheAppend_ne (st : State) (f : Frame) (j : Nat) (h : j ≠ f.sid) :
    (cacheAppend st f).1.partialOf j = st.partialOf j := by
  have hne : (f.sid == j) = false := by simp; exact fun e => h e.symm
  unfold cacheAppend
  simp only
  (repeat' split) <;> simp only [State.partialOf, List.filter_append, filter_filter_ne _ _ _ h] <;> simp [hne]

theorem partialOf_handleByType_ne (st : State) (f : Frame) (b : Behaviour) (j : Nat) (h : j ≠ f.sid) :
    (handleByType st f b).1.partialOf j = st.partialOf j := by
  unfold handleByType
  cases f.ty <;> simp only
  case requestResponse => split <;> (try cases b) <;> simp only <;> (repeat' split) <;> rfl
  case requestStream => split <;> (try cases b) <;> simp only <;> (repeat' split) <;> rfl
  case requestFnf => split <;> (try cases b) <;> rfl
  case setup => (repeat' split) <;> rfl
  case metadataPush => cases b <;> rfl
  case requestChannel =>
    split
    · rfl
    · cases b <;> simp only <;> (try rfl)
      rename_i hasPub hasSub
      split
      · rfl
      · have hm : ∀ (st' : State) (oid : Nat) (s : Stream) (r t : Bool), s.sid = f.sid →
            (markChannel st' oid s r t).partialOf j = st'.partialOf j :=
          fun st' oid s r t hs => partialOf_markChannel_ne st' oid s r t j (by rw [hs]; exact h)
        generalize hreg : st.register { kind := .chResp, sid := f.sid, hasPub := hasPub, subscribed := hasSub, setupDone := true } = r
        have h0 : r.1.partialOf j = st.partialOf j := by rw [← hreg]; rfl
        have ho : r.1.obj r.2 = some { kind := .chResp, sid := f.sid, hasPub := hasPub, subscribed := hasSub, setupDone := true } := by
          rw [← hreg]; exact obj_register st _
        rcases r with ⟨st0, oid⟩
        simp only at h0 ho ⊢
        cases hasSub <;> cases hasPub <;> cases f.complete <;>
          simp [ho, markChannel_obj, hm, h0]
  all_goals rfl

end RSocketModel.Engine

