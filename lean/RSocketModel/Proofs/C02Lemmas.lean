import RSocketModel.Proofs.Codec
import RSocketModel.Gen.Constants
/-! Helper definitions and lemmas for `Props/C02.lean` (moved out so that the property file holds only the property theorems). -/
namespace RSocketModel.Codec

theorem decode_of (f : Frame) (rest : Bytes) (hs : f.sid < 2 ^ 31) (m b7 b6 b5 : Bool)
    (hb : parseBody { sid := f.sid, ty := f.ty, ign := f.ign, m := m, b7 := b7, b6 := b6, b5 := b5 } rest = .ok (canon f))
    (hm : ¬ ((canon f).ty = 12 ∧ (canon f).sid ≠ 0)) :
    decode (mkHeader f.sid f.ty f.ign m b7 b6 b5 ++ rest) = .frame (canon f) := by
  unfold decode
  have hty : f.ty < 64 := by cases f <;> simp [Frame.ty]
  rw [parseHeader_mk f.sid f.ty f.ign m b7 b6 b5 rest hs hty]
  have hty2 : ¬ (f.ty = 0 ∨ 14 < f.ty) := by cases f <;> simp [Frame.ty]
  simp only [hty2, if_false, hb, hm]

theorem wf_sid (f : Frame) (h : WF f) : f.sid < 2 ^ 31 := by
  cases f <;> simp only [WF] at h <;> simp only [Frame.sid] <;> omega

theorem wf_not_ignored (f : Frame) (h : WF f) : ¬ ((canon f).ty = 12 ∧ (canon f).sid ≠ 0) := by
  cases f <;> simp [canon, Frame.ty, Frame.sid]
  simpa [WF] using h

/-- the bytes after the 6-byte header -/
def afterHeader (f : Frame) : Bytes :=
  f.middle ++ ((if (!f.md.isEmpty && !f.metadataOnly) = true then beBytes 3 f.md.length else []) ++
    (f.md ++ (if f.metadataOnly = true then [] else f.data)))

def headerOf (f : Frame) : Header :=
  { sid := f.sid, ty := f.ty, ign := f.ign, m := !f.md.isEmpty, b7 := f.typeFlags.1, b6 := f.typeFlags.2.1,
    b5 := f.typeFlags.2.2 }

theorem decode_encode_of (f : Frame) (h : WF f) (hb : parseBody (headerOf f) (afterHeader f) = .ok (canon f)) :
    decode (encode f) = .frame (canon f) := by
  rw [encode_eq]
  exact decode_of f _ (wf_sid f h) _ _ _ _ hb (wf_not_ignored f h)

end RSocketModel.Codec

