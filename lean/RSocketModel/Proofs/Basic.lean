import RSocketModel.Basic
import Mathlib.Tactic.Ring
namespace RSocketModel

@[simp] theorem beBytes_length (k n : Nat) : (beBytes k n).length = k := by
  induction k generalizing n with
  | zero => rfl
  | succ k ih => simp [beBytes, ih]

theorem be_foldl_acc (acc : Nat) (bs : Bytes) :
    bs.foldl (fun acc b => acc * 256 + b.toNat) acc
      = acc * 256 ^ bs.length + bs.foldl (fun acc b => acc * 256 + b.toNat) 0 := by
  induction bs generalizing acc with
  | nil => simp
  | cons x xs ih =>
    simp only [List.foldl_cons, List.length_cons]
    rw [ih (acc * 256 + x.toNat), ih (0 * 256 + x.toNat)]
    ring

theorem beVal_append (a b : Bytes) : beVal (a ++ b) = beVal a * 256 ^ b.length + beVal b := by
  unfold beVal
  rw [List.foldl_append, be_foldl_acc]

theorem beVal_singleton (x : UInt8) : beVal [x] = x.toNat := by simp [beVal]

theorem beVal_cons (x : UInt8) (xs : Bytes) : beVal (x :: xs) = x.toNat * 256 ^ xs.length + beVal xs := by
  have := beVal_append [x] xs
  simpa [beVal_singleton] using this

theorem beVal_beBytes (k n : Nat) : beVal (beBytes k n) = n % 256 ^ k := by
  induction k generalizing n with
  | zero => simp [beBytes, beVal, Nat.mod_one]
  | succ k ih =>
    simp only [beBytes]
    rw [beVal_append, ih, beVal_singleton]
    simp only [List.length_cons, List.length_nil, Nat.pow_one, Nat.zero_add]
    have h256 : (UInt8.ofNat (n % 256)).toNat = n % 256 := by
      simp [UInt8.toNat_ofNat']
    rw [h256, Nat.pow_succ, Nat.mul_comm (256 ^ k) 256, Nat.mod_mul]
    omega

theorem beVal_beBytes_of_lt (k n : Nat) (h : n < 256 ^ k) : beVal (beBytes k n) = n := by
  rw [beVal_beBytes, Nat.mod_eq_of_lt h]

theorem beVal_lt (bs : Bytes) : beVal bs < 256 ^ bs.length := by
  induction bs with
  | nil => simp [beVal]
  | cons x xs ih =>
    rw [beVal_cons]
    simp only [List.length_cons, Nat.pow_succ]
    have := x.toNat_lt
    have h : (2:Nat) ^ 8 = 256 := rfl
    have hp : 0 < 256 ^ xs.length := Nat.pos_of_ne_zero (by simp)
    generalize 256 ^ xs.length = P at *
    have : x.toNat * P ≤ 255 * P := Nat.mul_le_mul_right _ (by omega)
    omega

end RSocketModel
