import RSocketModel.Collector
import RSocketModel.Proofs.Basic
namespace RSocketModel.Collector

theorem granted_append (a b : List Out) : granted (a ++ b) = granted a + granted b := by
  induction a with
  | nil => simp [granted]
  | cons x r ih => cases x <;> simp [granted, ih] <;> omega

theorem run_append (L : Nat) (C : Option Nat) (a b : List Ev) : ∀ s : St,
    run L C s (a ++ b) = ((run L C (run L C s a).1 b).1, (run L C s a).2 ++ (run L C (run L C s a).1 b).2) := by
  induction a with
  | nil => intro s; simp [run]
  | cons e r ih => intro s; simp [run, ih, List.append_assoc]

/-- the bookkeeping invariant: with the initial `L`, the credit granted so far minus the elements
received so far is `L - recv`, and `recv < L` -/
def Inv (L : Nat) (g : Nat) (s : St) : Prop := s.recv < L ∧ L + g = s.total + (L - s.recv)

theorem inv_step (L : Nat) (C : Option Nat) (g : Nat) (s : St) (e : Ev) (h : Inv L g s) :
    Inv L (g + granted (step L C s e).2) (step L C s e).1 ∨
      (∃ c, e = .next c ∧ (c = true ∨ C = some (s.total + 1))) := by
  obtain ⟨h1, h2⟩ := h
  cases e with
  | next c =>
    by_cases hc : c = true
    · exact Or.inr ⟨c, rfl, Or.inl hc⟩
    · by_cases hC : C = some (s.total + 1)
      · exact Or.inr ⟨c, rfl, Or.inr hC⟩
      · left
        simp only [step, hc, hC, if_false, Bool.false_eq_true]
        by_cases hl : s.recv + 1 = L
        · simp only [hl, if_true, granted, Inv]; omega
        · simp only [hl, if_false, granted, Inv]; omega
  | complete => left; simp only [step, granted, Inv]; omega
  | error => left; simp only [step, granted, Inv]; omega

end RSocketModel.Collector
