import RSocketModel.StreamId
namespace RSocketModel.StreamId

theorem two_pow_pos (k : Nat) : 0 < 2 ^ k := Nat.pos_of_ne_zero (by simp)

theorem two_pow_split {k : Nat} (hk : 1 ≤ k) : 2 ^ k = 2 * 2 ^ (k - 1) := by
  cases k with
  | zero => omega
  | succ n => simp [Nat.pow_succ, Nat.mul_comm]

theorem incr_lt (k cur : Nat) : incr k cur < 2 ^ k := Nat.mod_lt _ (two_pow_pos k)

theorem incr_parity {k : Nat} (hk : 1 ≤ k) (cur : Nat) : incr k cur % 2 = cur % 2 := by
  unfold incr
  have h := two_pow_split hk
  generalize 2 ^ (k - 1) = H at h
  rw [h, Nat.mod_mul_right_mod]
  omega

/-- position reached after `j` increments -/
def nth (k cur : Nat) : Nat → Nat
  | 0 => cur
  | j + 1 => incr k (nth k cur j)

theorem nth_succ_left (k cur j : Nat) : nth k cur (j + 1) = nth k (incr k cur) j := by
  induction j with
  | zero => rfl
  | succ n ih => simp only [nth] at ih ⊢; rw [ih]

theorem nth_eq (k cur j : Nat) (hc : cur < 2 ^ k) : nth k cur j = (cur + 2 * j) % 2 ^ k := by
  induction j with
  | zero => simp [nth, Nat.mod_eq_of_lt hc]
  | succ n ih =>
    simp only [nth, ih, incr]
    rw [Nat.mod_add_mod]
    congr 1

theorem nth_parity {k : Nat} (hk : 1 ≤ k) (cur j : Nat) : nth k cur j % 2 = cur % 2 := by
  induction j with
  | zero => rfl
  | succ n ih => simp only [nth]; rw [incr_parity hk, ih]

/-- Characterisation of the loop: success at the first `j ≤ fuel` whose position is free. -/
theorem allocLoop_some (k : Nat) (active : Nat → Bool) (fuel cur id c : Nat)
    (h : allocLoop k active fuel cur = (some id, c)) :
    c = id ∧ ∃ j, 1 ≤ j ∧ j ≤ fuel ∧ id = nth k cur j ∧ id ≠ 0 ∧ active id = false ∧
      ∀ i, 1 ≤ i → i < j → (nth k cur i = 0 ∨ active (nth k cur i) = true) := by
  induction fuel generalizing cur with
  | zero => simp [allocLoop] at h
  | succ n ih =>
    simp only [allocLoop] at h
    split at h
    · rename_i hbusy
      obtain ⟨hc, j, hj1, hjn, hid, hnz, hna, hall⟩ := ih _ h
      refine ⟨hc, j + 1, by omega, by omega, ?_, hnz, hna, ?_⟩
      · rw [nth_succ_left]; exact hid
      · intro i hi1 hij
        cases i with
        | zero => omega
        | succ i' =>
          rw [nth_succ_left]
          cases i' with
          | zero =>
            simp only [nth]
            simp only [Bool.or_eq_true, beq_iff_eq] at hbusy
            exact hbusy
          | succ i'' => exact hall (i'' + 1) (by omega) (by omega)
    · rename_i hfree
      simp only [Bool.or_eq_true, beq_iff_eq, not_or, Bool.not_eq_true] at hfree
      simp only [Prod.mk.injEq, Option.some.injEq] at h
      obtain ⟨h1, h2⟩ := h
      subst h1
      refine ⟨h2.symm, 1, by omega, by omega, rfl, hfree.1, hfree.2, ?_⟩
      intro i h1 h2; omega

theorem allocLoop_none (k : Nat) (active : Nat → Bool) (fuel cur c : Nat)
    (h : allocLoop k active fuel cur = (none, c)) :
    c = nth k cur fuel ∧
      ∀ i, 1 ≤ i → i ≤ fuel → (nth k cur i = 0 ∨ active (nth k cur i) = true) := by
  induction fuel generalizing cur with
  | zero =>
    simp only [allocLoop, Prod.mk.injEq, true_and] at h
    exact ⟨h.symm, fun i h1 h2 => by omega⟩
  | succ n ih =>
    simp only [allocLoop] at h
    split at h
    · rename_i hbusy
      obtain ⟨hc, hall⟩ := ih _ h
      refine ⟨by rw [nth_succ_left]; exact hc, ?_⟩
      intro i hi1 hin
      cases i with
      | zero => omega
      | succ i' =>
        rw [nth_succ_left]
        cases i' with
        | zero =>
          simp only [nth]
          simpa only [Bool.or_eq_true, beq_iff_eq] using hbusy
        | succ i'' => exact hall (i'' + 1) (by omega) (by omega)
    · simp at h

theorem allocLoop_none_of_all (k : Nat) (active : Nat → Bool) (fuel cur : Nat)
    (hall : ∀ i, 1 ≤ i → i ≤ fuel → (nth k cur i = 0 ∨ active (nth k cur i) = true)) :
    (allocLoop k active fuel cur).1 = none := by
  induction fuel generalizing cur with
  | zero => rfl
  | succ n ih =>
    simp only [allocLoop]
    have h1 := hall 1 (by omega) (by omega)
    simp only [nth] at h1
    have : (incr k cur == 0 || active (incr k cur)) = true := by
      simpa only [Bool.or_eq_true, beq_iff_eq] using h1
    rw [if_pos this]
    apply ih
    intro i hi1 hin
    have := hall (i + 1) (by omega) (by omega)
    rwa [nth_succ_left] at this

/-- Every id `x < 2^k` of `cur`'s parity is reached within `2^(k-1)` increments. -/
theorem enumerates {k : Nat} (hk : 1 ≤ k) (cur x : Nat) (hc : cur < 2 ^ k) (hx : x < 2 ^ k)
    (hp : x % 2 = cur % 2) : ∃ j, 1 ≤ j ∧ j ≤ 2 ^ (k - 1) ∧ nth k cur j = x := by
  have hM := two_pow_split hk
  by_cases hgt : cur < x
  · refine ⟨(x - cur) / 2, by omega, by omega, ?_⟩
    rw [nth_eq k cur _ hc]
    have : cur + 2 * ((x - cur) / 2) = x := by omega
    rw [this, Nat.mod_eq_of_lt hx]
  · refine ⟨2 ^ (k - 1) - (cur - x) / 2, by omega, by omega, ?_⟩
    rw [nth_eq k cur _ hc]
    have : cur + 2 * (2 ^ (k - 1) - (cur - x) / 2) = x + 2 ^ k := by omega
    rw [this, Nat.add_mod_right, Nat.mod_eq_of_lt hx]

theorem nth_lt (k cur j : Nat) (hc : cur < 2 ^ k) : nth k cur j < 2 ^ k := by
  cases j with
  | zero => exact hc
  | succ n => exact incr_lt _ _

theorem initCur_lt (k first : Nat) : initCur k first < 2 ^ k := Nat.mod_lt _ (two_pow_pos k)

theorem initCur_parity {k : Nat} (hk : 1 ≤ k) (first : Nat) (hf : 1 ≤ first) :
    initCur k first % 2 = first % 2 := by
  unfold initCur
  have h := two_pow_split hk
  have hH := two_pow_pos (k - 1)
  generalize 2 ^ (k - 1) = H at h hH
  rw [h, Nat.mod_mul_right_mod]
  omega

end RSocketModel.StreamId
