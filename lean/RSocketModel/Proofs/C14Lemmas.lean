import RSocketModel.Lease
/-! Helper definitions and lemmas for `Props/C14.lean` (moved out so that the property file holds only the property theorems). -/
namespace RSocketModel.Lease

theorem allow_true (l : LeaseSt) (now : Nat) (h : (allow l now).1 = true) :
    now < l.created + l.ttl ∧ l.used < l.max ∧ (allow l now).2 = { l with used := l.used + 1 } := by
  unfold allow at h ⊢
  split at h
  · simp at h
  · simp only [decide_eq_true_eq] at h
    exact ⟨by omega, by omega, by simp [*]⟩

theorem allow_snd (l : LeaseSt) (now : Nat) :
    (allow l now).2.max = l.max ∧ (allow l now).2.created = l.created ∧ (allow l now).2.ttl = l.ttl ∧
    l.used ≤ (allow l now).2.used := by
  unfold allow; split <;> simp

/-- cannot grant any more: expired or exhausted -/
def Spent (l : LeaseSt) (now : Nat) : Prop := l.created + l.ttl ≤ now ∨ l.max ≤ l.used

theorem spent_mono (l : LeaseSt) (a b : Nat) (h : Spent l a) (hab : a ≤ b) : Spent l b := by
  rcases h with h | h
  · exact Or.inl (by omega)
  · exact Or.inr h

theorem allow_false_spent (l : LeaseSt) (now : Nat) (h : (allow l now).1 = false) : Spent (allow l now).2 now := by
  unfold allow at h ⊢
  split
  · exact Or.inl (by assumption)
  · rename_i hne
    simp only [hne, if_false, decide_eq_false_iff_not] at h
    exact Or.inr (by simp; omega)

theorem spent_allow (l : LeaseSt) (now : Nat) (h : Spent l now) : (allow l now).1 = false ∧ Spent (allow l now).2 now := by
  unfold allow
  rcases h with h | h
  · simp [h]; exact Or.inl h
  · split
    · exact ⟨rfl, Or.inr h⟩
    · refine ⟨by simp; omega, Or.inr (by simp; omega)⟩

theorem drain_used (l : LeaseSt) (now : Nat) (q : List Nat) (sent : List (Nat × Nat)) :
    l.used + ((drain l now q sent).2.2.length - sent.length) ≤ (drain l now q sent).1.used := by
  induction q generalizing l sent with
  | nil => simp [drain]
  | cons r rest ih =>
    rcases h : allow l now with ⟨ok, l'⟩
    have hs := allow_snd l now
    rw [h] at hs
    dsimp only at hs
    cases ok
    · simp only [drain, h]; simp; omega
    · have := ih l' (sent ++ [(r, now)])
      obtain ⟨_, _, heq⟩ := allow_true l now (by rw [h])
      rw [h] at heq
      dsimp only at heq
      subst heq
      simp only [drain, h]
      simp only [List.length_append, List.length_cons, List.length_nil] at this
      omega


theorem drain_conserves (l : LeaseSt) (now : Nat) (q : List Nat) (sent : List (Nat × Nat)) :
    (drain l now q sent).2.2.map (·.1) ++ (drain l now q sent).2.1 = sent.map (·.1) ++ q := by
  induction q generalizing l sent with
  | nil => simp [drain]
  | cons r rest ih =>
    rcases h : allow l now with ⟨ok, l'⟩
    cases ok <;> simp [drain, h, ih]

theorem drain_lease (l : LeaseSt) (now : Nat) (q : List Nat) (sent : List (Nat × Nat)) :
    (drain l now q sent).1.max = l.max ∧ (drain l now q sent).1.created = l.created ∧
    (drain l now q sent).1.ttl = l.ttl ∧ l.used ≤ (drain l now q sent).1.used := by
  induction q generalizing l sent with
  | nil => simp [drain]
  | cons r rest ih =>
    rcases h : allow l now with ⟨ok, l'⟩
    have hs := allow_snd l now
    rw [h] at hs
    dsimp only at hs
    cases ok
    · simpa [drain, h] using hs
    · obtain ⟨i1, i2, i3, i4⟩ := ih l' (sent ++ [(r, now)])
      simp only [drain, h]
      exact ⟨by rw [i1, hs.1], by rw [i2, hs.2.1], by rw [i3, hs.2.2.1], by omega⟩

theorem drain_spent (l : LeaseSt) (now : Nat) (q : List Nat) (sent : List (Nat × Nat)) :
    (drain l now q sent).2.1 ≠ [] → Spent (drain l now q sent).1 now := by
  induction q generalizing l sent with
  | nil => simp [drain]
  | cons r rest ih =>
    rcases h : allow l now with ⟨ok, l'⟩
    cases ok
    · intro _
      have := allow_false_spent l now (by rw [h])
      simpa [drain, h] using this
    · simpa [drain, h] using ih l' (sent ++ [(r, now)])

/-- what the loop sends: an extension of `sent` by at most `max − used` entries, all stamped `now`,
and only if the lease is still within its time-to-live -/
theorem drain_sent (l : LeaseSt) (now : Nat) (q : List Nat) (sent : List (Nat × Nat)) :
    ∃ new, (drain l now q sent).2.2 = sent ++ new ∧ (∀ x ∈ new, x.2 = now) ∧
      new.length + l.used ≤ max l.max l.used ∧ (new ≠ [] → now < l.created + l.ttl) := by
  induction q generalizing l sent with
  | nil => exact ⟨[], by simp [drain], by simp, by simp; omega, by simp⟩
  | cons r rest ih =>
    rcases h : allow l now with ⟨ok, l'⟩
    cases ok
    · exact ⟨[], by simp [drain, h], by simp, by simp; omega, by simp⟩
    · obtain ⟨ht, hu, heq⟩ := allow_true l now (by rw [h])
      rw [h] at heq
      simp only at heq
      obtain ⟨new, h1, h2, h3, h4⟩ := ih l' (sent ++ [(r, now)])
      refine ⟨(r, now) :: new, by simp [drain, h, h1], ?_, ?_, fun _ => ht⟩
      · intro x hx
        simp only [List.mem_cons] at hx
        rcases hx with rfl | hx
        · rfl
        · exact h2 x hx
      · rw [heq] at h3
        simp only [List.length_cons] at h3 ⊢
        omega

/-- while requests are held the lease in force can grant nothing (so a new request can never
overtake a held one); the ghost counter of requests sent under the lease in force never exceeds
the granted number -/
def Inv (s : State) : Prop :=
  (s.queue ≠ [] → Spent s.lease s.now) ∧ s.underLease ≤ s.lease.max ∧ s.underLease ≤ s.lease.used

theorem inv_init (cap t0 : Nat) : Inv (init cap t0) := by simp [Inv, init]

theorem step_now_mono (s : State) (e : Ev) : s.now ≤ (step s e).now := by
  cases e with
  | request tag t =>
    simp only [step]
    rcases allow s.lease (max s.now t) with ⟨ok, l'⟩
    cases ok <;> simp only [Bool.false_eq_true, if_false, if_true] <;> (try split) <;> exact Nat.le_max_left _ _
  | lease n ttl t => exact Nat.le_max_left _ _

theorem inv_step (s : State) (e : Ev) (h : Inv s) : Inv (step s e) := by
  obtain ⟨h1, h2, h3⟩ := h
  cases e with
  | request tag t =>
    simp only [step]
    rcases ha : allow s.lease (max s.now t) with ⟨ok, l'⟩
    have hs := allow_snd s.lease (max s.now t)
    rw [ha] at hs
    dsimp only at hs
    obtain ⟨hs1, hs2, hs3, hs4⟩ := hs
    cases ok
    · have hsp := allow_false_spent s.lease (max s.now t) (by rw [ha])
      rw [ha] at hsp
      dsimp only at hsp
      simp only [Bool.false_eq_true, if_false]
      split
      · exact ⟨fun _ => hsp, by show s.underLease ≤ l'.max; omega, by show s.underLease ≤ l'.used; omega⟩
      · exact ⟨fun _ => hsp, by show s.underLease ≤ l'.max; omega, by show s.underLease ≤ l'.used; omega⟩
    · obtain ⟨_, hu, heq⟩ := allow_true s.lease (max s.now t) (by rw [ha])
      rw [ha] at heq
      dsimp only at heq
      simp only [if_true]
      refine ⟨?_, by show s.underLease + 1 ≤ l'.max; omega, by show s.underLease + 1 ≤ l'.used; rw [heq]; simp; omega⟩
      intro hq
      -- the queue was non-empty: the lease was spent, so it cannot have allowed
      have := spent_allow s.lease (max s.now t) (spent_mono _ _ _ (h1 hq) (Nat.le_max_left _ _))
      rw [ha] at this
      simp at this
  | lease n ttl t =>
    simp only [step]
    have hd := drain_sent { max := n, used := 0, created := max s.now t, ttl := ttl } (max s.now t) s.queue s.sent
    obtain ⟨new, e1, _, e3, _⟩ := hd
    have hl := drain_lease { max := n, used := 0, created := max s.now t, ttl := ttl } (max s.now t) s.queue s.sent
    have hu := drain_used { max := n, used := 0, created := max s.now t, ttl := ttl } (max s.now t) s.queue s.sent
    refine ⟨drain_spent _ _ _ _, ?_, ?_⟩
    · show (drain _ _ _ _).2.2.length - s.sent.length ≤ (drain _ _ _ _).1.max
      rw [e1, hl.1]; simp at e3 ⊢; omega
    · show (drain _ _ _ _).2.2.length - s.sent.length ≤ (drain _ _ _ _).1.used
      simp only [Nat.zero_add] at hu
      exact hu

theorem inv_run (cap t0 : Nat) (evs : List Ev) : Inv (run (init cap t0) evs) := by
  unfold run
  generalize hs : init cap t0 = s0
  have h0 : Inv s0 := hs ▸ inv_init cap t0
  clear hs
  induction evs generalizing s0 with
  | nil => exact h0
  | cons e es ih => exact ih (step s0 e) (inv_step s0 e h0)

def isRequest : Ev → Bool
  | .request .. => true
  | .lease .. => false

/-- the ghost counter is what it claims to be: the growth of `sent` since the latest LEASE -/
theorem underLease_spec (s : State) (n ttl t : Nat) (post : List Ev) (h : ∀ e ∈ post, isRequest e = true) :
    (run (step s (.lease n ttl t)) post).underLease = (run (step s (.lease n ttl t)) post).sent.length - s.sent.length ∧
    (run (step s (.lease n ttl t)) post).lease.max = n ∧
    s.sent.length ≤ (run (step s (.lease n ttl t)) post).sent.length := by
  have hd := drain_sent { max := n, used := 0, created := max s.now t, ttl := ttl } (max s.now t) s.queue s.sent
  have hl := drain_lease { max := n, used := 0, created := max s.now t, ttl := ttl } (max s.now t) s.queue s.sent
  obtain ⟨new, e1, _⟩ := hd
  have h0 : (step s (.lease n ttl t)).underLease = (step s (.lease n ttl t)).sent.length - s.sent.length ∧
      (step s (.lease n ttl t)).lease.max = n ∧ s.sent.length ≤ (step s (.lease n ttl t)).sent.length := by
    refine ⟨rfl, hl.1, ?_⟩
    show s.sent.length ≤ (drain _ _ s.queue s.sent).2.2.length
    rw [e1]; simp
  generalize step s (.lease n ttl t) = s1 at h0
  induction post generalizing s1 with
  | nil => exact h0
  | cons e es ih =>
    simp only [run, List.foldl_cons]
    apply ih (fun x hx => h x (by simp [hx]))
    have he := h e (by simp)
    cases e with
    | lease _ _ _ => simp [isRequest] at he
    | request tag t' =>
      simp only [step]
      rcases ha : allow s1.lease (max s1.now t') with ⟨ok, l'⟩
      have hs := allow_snd s1.lease (max s1.now t')
      rw [ha] at hs
      dsimp only at hs
      cases ok
      · simp only [Bool.false_eq_true, if_false]
        split <;> exact ⟨h0.1, by show l'.max = n; omega, h0.2.2⟩
      · simp only [if_true]
        refine ⟨?_, by show l'.max = n; omega, by simp; omega⟩
        show s1.underLease + 1 = (s1.sent ++ [(tag, max s1.now t')]).length - s.sent.length
        simp only [List.length_append, List.length_cons, List.length_nil]
        omega

/-- the tags of the requests handed to `send_request` over a history, in order -/
def requestedTags : List Ev → List Nat
  | [] => []
  | .request tag _ :: evs => tag :: requestedTags evs
  | .lease .. :: evs => requestedTags evs

theorem step_accounts (s : State) (e : Ev) :
    (accepted (step s e) ++ (step s e).rejected).Perm (accepted s ++ s.rejected ++ requestedTags [e]) := by
  cases e with
  | request tag t =>
    simp only [step, requestedTags]
    rcases h : allow s.lease (max s.now t) with ⟨ok, l'⟩
    rw [List.perm_iff_count]
    intro a
    cases ok
    · simp only [Bool.false_eq_true, if_false]
      split <;> simp [accepted, List.count_append, List.count_cons] <;> omega
    · simp [accepted, List.count_append, List.count_cons]; omega
  | lease n ttl t =>
    simp only [step, requestedTags, accepted, List.append_nil]
    rw [drain_conserves]

end RSocketModel.Lease

