import RSocketModel.KeepAlive
import RSocketModel.Engine.Step
/-! Helper definitions and lemmas for `Props/C15.lean` (moved out so that the property file holds only the property theorems). -/
namespace RSocketModel.KeepAlive

theorem foldl_max_ge_init (l : List Nat) (a : Nat) : a ≤ l.foldl max a := by
  induction l generalizing a with
  | nil => exact Nat.le_refl a
  | cons x xs ih => exact Nat.le_trans (Nat.le_max_left a x) (ih (max a x))

theorem foldl_max_ge_mem (l : List Nat) (a x : Nat) (h : x ∈ l) : x ≤ l.foldl max a := by
  induction l generalizing a with
  | nil => simp at h
  | cons y ys ih =>
    simp only [List.mem_cons] at h
    rcases h with rfl | h
    · exact Nat.le_trans (Nat.le_max_right a x) (foldl_max_ge_init ys _)
    · exact ih _ h

theorem foldl_max_le (l : List Nat) (a T : Nat) (ha : a ≤ T) (hl : ∀ x ∈ l, x ≤ T) : l.foldl max a ≤ T := by
  induction l generalizing a with
  | nil => exact ha
  | cons y ys ih =>
    exact ih _ (Nat.max_le.mpr ⟨ha, hl y (by simp)⟩) (fun x hx => hl x (by simp [hx]))

theorem lastBefore_le (r0 T : Nat) (arrivals : List Nat) (h : r0 ≤ T) : lastBefore r0 arrivals T ≤ T := by
  unfold lastBefore
  apply foldl_max_le _ _ _ h
  intro x hx
  simpa using (List.mem_filter.mp hx).2

theorem lastBefore_ge (r0 T a : Nat) (arrivals : List Nat) (ha : a ∈ arrivals) (haT : a ≤ T) :
    a ≤ lastBefore r0 arrivals T := by
  unfold lastBefore
  exact foldl_max_ge_mem _ _ _ (List.mem_filter.mpr ⟨ha, by simpa using haT⟩)

/-- arrivals at intervals no longer than the maximum lifetime -/
def GapsOK (L : Nat) : Nat → List Nat → Prop
  | _, [] => True
  | prev, a :: rest => prev ≤ a ∧ a ≤ prev + L ∧ GapsOK L a rest

end RSocketModel.KeepAlive

