import RSocketModel.RxAdapter
import RSocketModel.Props.C06
/-! Helper definitions and lemmas for `Props/C20.lean` (moved out so that the property file holds only the property theorems). -/
namespace RSocketModel.RxAdapter

variable {α : Type}

/-- invariant of the batching subscriber under a credit-respecting publisher: outstanding credit is
the limit minus what was consumed of the current batch; while a new request is pending, nothing is
outstanding -/
def Inv (s : Sub α) : Prop :=
  (s.pendingTrigger = false → s.requested = s.observed.length + s.limit - s.counter ∧ s.counter ≤ s.limit) ∧
  (s.pendingTrigger = true → s.requested = s.observed.length ∧ s.counter = 0)

theorem inv_init (limit : Nat) : Inv (Sub.init limit : Sub α) := by
  simp [Inv, Sub.init]

theorem inv_step (s : Sub α) (e : Ev α) (h : Inv s)
    (hl : legalEv s e = true) : Inv (step s e) := by
  obtain ⟨h1, h2⟩ := h
  cases e with
  | complete => exact ⟨h1, h2⟩
  | error => exact ⟨h1, h2⟩
  | trigger =>
    simp only [step]
    split
    · rename_i hp
      obtain ⟨r0, c0⟩ := h2 hp
      exact ⟨fun _ => ⟨by simp; omega, by simp; omega⟩, fun h => by simp at h⟩
    · exact ⟨h1, h2⟩
  | next x c =>
    have hl : s.observed.length < s.requested := by
      simp only [legalEv, Bool.and_eq_true, decide_eq_true_eq] at hl; exact hl.1
    have hnp : s.pendingTrigger = false := by
      cases hp : s.pendingTrigger
      · rfl
      · have := h2 hp; omega
    obtain ⟨hr, hk⟩ := h1 hnp
    simp only [step]
    split
    · exact ⟨fun _ => ⟨by simp; omega, by simp; omega⟩, fun hp => by simp [hnp] at hp⟩
    · split
      · rename_i heq
        exact ⟨fun hp => by simp at hp, fun _ => ⟨by simp; omega, rfl⟩⟩
      · rename_i hne
        exact ⟨fun _ => ⟨by simp; omega, by simp; omega⟩, fun hp => by simp [hnp] at hp⟩

theorem inv_run (limit : Nat) (evs : List (Ev α)) (hl : PeerLegal (Sub.init limit) evs) :
    Inv (run (Sub.init limit) evs) := by
  unfold run
  have h0 : Inv (Sub.init limit : Sub α) := inv_init limit
  generalize (Sub.init limit : Sub α) = s0 at h0 hl
  induction evs generalizing s0 with
  | nil => exact h0
  | cons e es ih =>
    simp only [PeerLegal, peerLegal, Bool.and_eq_true] at hl
    exact ih (step s0 e) (inv_step s0 e h0 hl.1) hl.2

theorem run_limit (s0 : Sub α) (evs : List (Ev α)) : (run s0 evs).limit = s0.limit := by
  unfold run
  induction evs generalizing s0 with
  | nil => rfl
  | cons e es ih =>
    simp only [List.foldl_cons]
    rw [ih (step s0 e)]
    cases e <;> simp only [step] <;> (try split) <;> (try split) <;> rfl

instance (s : Sub α) (evs : List (Ev α)) : Decidable (PeerLegal s evs) := by unfold PeerLegal; infer_instance

end RSocketModel.RxAdapter

