import RSocketModel.Gen.Adapters
/-!
Model of the Rx / ReactiveX adapters: the request-batching subscribers of
`reactivex|rx_support/from_rsocket_publisher.py` (`RxSubscriber` driven by `_trigger_next_request_n`,
and `RxSubscriberFromObserver`), and the credit feedback of `InternalBackPressurePublisher`.
(The buffering puller behind `BackPressurePublisher` is `RSocketModel.Credit`.)
-/
namespace RSocketModel.RxAdapter

/-- the batching subscriber: `limit_rate` elements are requested at a time -/
structure Sub (α : Type) where
  limit : Nat
  counter : Nat := 0            -- `_received_messages`
  requested : Nat := 0          -- total credit sent to the publisher (initial request-n + every `request(limit)`)
  pendingTrigger : Bool := false -- `get_next_n` is set and the trigger task has not run yet
  observed : List α := []       -- what the observer has been given
  terminal : Option Bool := none -- some true = completed, some false = error
deriving Repr

/-- subscribing sends the stream request with initial request-n = limit -/
def Sub.init {α : Type} (limit : Nat) : Sub α := { limit := limit, requested := limit }

inductive Ev (α : Type) where
  | next (x : α) (complete : Bool)  -- `on_next`
  | complete                        -- `on_complete`
  | error                           -- `on_error`
  | trigger                         -- `_trigger_next_request_n` runs: `subscription.request(limit)`
deriving Repr

def step {α : Type} (s : Sub α) : Ev α → Sub α
  | .next x c =>
    let s1 := { s with counter := s.counter + 1, observed := s.observed ++ [x] }
    if c then { s1 with terminal := some true }
    else if s1.counter = s.limit then { s1 with counter := 0, pendingTrigger := true }
    else s1
  | .complete => { s with terminal := some true }
  | .error => { s with terminal := some false }
  | .trigger => if s.pendingTrigger then { s with requested := s.requested + s.limit, pendingTrigger := false } else s

def run {α : Type} (s : Sub α) (evs : List (Ev α)) : Sub α := evs.foldl step s

/-- the elements carried by an event sequence, in order -/
def delivered {α : Type} : List (Ev α) → List α
  | [] => []
  | .next x _ :: rest => x :: delivered rest
  | _ :: rest => delivered rest

/-- may the publisher deliver this event now? (an element needs outstanding credit and no terminal yet) -/
def legalEv {α : Type} (s : Sub α) : Ev α → Bool
  | .next _ _ => decide (s.observed.length < s.requested) && s.terminal.isNone
  | _ => true

/-- a publisher that respects credit: at every `next`, strictly fewer elements were delivered
before than were requested -/
def peerLegal {α : Type} : Sub α → List (Ev α) → Bool
  | _, [] => true
  | s, e :: rest => legalEv s e && peerLegal (step s e) rest

def PeerLegal {α : Type} (s : Sub α) (evs : List (Ev α)) : Prop := peerLegal s evs = true

/-- `InternalBackPressurePublisher`: credits are handed to the observable factory's feedback
subject unchanged, cancel completes it -/
inductive Feedback where
  | onNext (n : Nat)
  | onCompleted
deriving Repr, DecidableEq

def feedbackOf : List (Nat ⊕ Unit) → List Feedback
  | [] => []
  | .inl n :: rest => .onNext n :: feedbackOf rest
  | .inr () :: rest => .onCompleted :: feedbackOf rest

end RSocketModel.RxAdapter
