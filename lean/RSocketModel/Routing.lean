import RSocketModel.Composite
/-!
Model of `rsocket/routing/routing_request_handler.py` (`_parse_and_route`, `_verify_authentication`),
`rsocket/routing/request_router.py` (`route`, `_get_unknown_route`, `_collect_route_arguments`) and
`rsocket/extensions/helpers.py: require_route`.
-/
namespace RSocketModel.Routing
open RSocketModel.Composite

inductive ReqType where
  | response | stream | channel | fnf | metadataPush
deriving Repr, DecidableEq

/-- how a declared parameter is annotated -/
inductive Annot where
  | empty | payload | compositeMetadata | other
deriving Repr, DecidableEq

structure Param where
  named_composite_metadata : Bool       -- the parameter is literally called `composite_metadata`
  annot : Annot
deriving Repr, DecidableEq

/-- what a parameter receives -/
inductive Arg where
  | composite | payload | deserialized
deriving Repr, DecidableEq

structure Handler where
  id : Nat
  params : List Param
deriving Repr, DecidableEq

structure Router where
  routes : ReqType → List (Bytes × Handler)
  unknown : ReqType → Option Handler

inductive Outcome where
  | ran (h : Nat) (args : List Arg)
  | error                      -- the request alone fails (error future / ErrorStream / swallowed for one-way requests)
deriving Repr, DecidableEq

/-- `require_route`: first tag of the first routing entry (`none`: no routing entry, or it has no tag) -/
def requireRoute : List Item → Option Bytes
  | [] => none
  | .routing tags :: _ => tags.head?
  | _ :: rest => requireRoute rest

/-- the first authentication entry -/
def firstAuth : List Item → Option Item
  | [] => none
  | .authSimple u p :: _ => some (.authSimple u p)
  | .authBearer t :: _ => some (.authBearer t)
  | _ :: rest => firstAuth rest

/-- `_collect_route_arguments` -/
def collectArgs (ps : List Param) : List Arg :=
  ps.map fun p =>
    if p.named_composite_metadata || p.annot == .compositeMetadata then .composite
    else if p.annot == .payload || p.annot == .empty then .payload
    else .deserialized

def lookup (rs : List (Bytes × Handler)) (route : Bytes) : Option Handler := (rs.find? (·.1 == route)).map (·.2)

/-- `RequestRouter.route` up to the call of the handler -/
def routeTo (r : Router) (ty : ReqType) (route : Bytes) : Outcome :=
  match lookup (r.routes ty) route with
  | some h => .ran h.id (collectArgs h.params)
  | none =>
    match r.unknown ty with
    | some h => .ran h.id (collectArgs h.params)
    | none => .error

/-- `_parse_and_route`. `items = none` is an unparseable composite; the verifier, when configured,
maps (route, authentication entry) to accept / reject (reject = it raises). -/
def dispatch (r : Router) (verifier : Option (Bytes → Item → Bool)) (ty : ReqType) (items : Option (List Item)) : Outcome :=
  match items with
  | none => .error
  | some items =>
    match requireRoute items with
    | none => .error
    | some route =>
      match verifier with
      | none => routeTo r ty route
      | some v =>
        match firstAuth items with
        | none => .error                         -- 'Authentication required but not provided'
        | some a => if v route a then routeTo r ty route else .error

end RSocketModel.Routing
