/-!
`CollectorSubscriber` (`rsocket/awaitable/collector_subscriber.py`): the subscriber behind
`AwaitableRSocket.request_stream / request_channel`. It is subscribed with `initial_request_n(L)`
(`L` = `limit_rate`), asks for `L` more every time it has received `L` elements since the last
request, cancels once `limit_count` elements have arrived, and resolves the awaitable on the first
terminal event.
-/
namespace RSocketModel.Collector

structure St where
  recv : Nat := 0            -- `_received_count`: elements since the last request
  total : Nat := 0           -- `_total_received_count`
  done : Bool := false       -- `is_done` is set
  failed : Bool := false     -- `error` is set
deriving Repr, DecidableEq

inductive Ev where
  | next (complete : Bool)   -- `on_next(value, is_complete)`
  | complete                 -- `on_complete()`
  | error                    -- `on_error(e)`
deriving Repr, DecidableEq

inductive Out where
  | request (n : Nat)        -- `subscription.request(n)` → REQUEST_N(n)
  | cancel                   -- `subscription.cancel()` → CANCEL
deriving Repr, DecidableEq

def step (L : Nat) (C : Option Nat) (s : St) : Ev → St × List Out
  | .next c =>
    let s1 := { s with recv := s.recv + 1, total := s.total + 1 }
    if c then ({ s1 with done := true }, [])
    else if C = some s1.total then ({ s1 with done := true }, [.cancel])
    else if s1.recv = L then ({ s1 with recv := 0 }, [.request L])
    else (s1, [])
  | .complete => ({ s with done := true }, [])
  | .error => ({ s with done := true, failed := true }, [])

def run (L : Nat) (C : Option Nat) (s : St) : List Ev → St × List Out
  | [] => (s, [])
  | e :: es =>
    let r := step L C s e
    let r' := run L C r.1 es
    (r'.1, r.2 ++ r'.2)

/-- credit granted by a list of outputs -/
def granted : List Out → Nat
  | [] => 0
  | .request n :: r => n + granted r
  | .cancel :: r => granted r

end RSocketModel.Collector
