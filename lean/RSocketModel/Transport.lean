import RSocketModel.Parser
/-!
Model of the receive side of `rsocket/transports/tcp.py` (`TransportTCP.next_frame_generator`) as
the receiver loop of `rsocket_base.py` (`_receiver_listen`) drives it, and of
`transports/abstract_messaging.py` (`AbstractMessagingTransport.next_frame_generator`).

Byte-stream transport: each iteration awaits one `reader.read(n)`. A non-empty result is handed to
`FrameParser.receive_data` and every frame it yields is dispatched; an empty result is the end of the
stream (`writer.close()`, generator `None`, the loop ends); an exception is wrapped into
`RSocketTransportError` and ends the loop as a failure. What `read` returns — how the peer's bytes
are cut, when the end arrives — is the input.
-/
namespace RSocketModel.Transport
open RSocketModel.Parser

/-- the outcome of one `StreamReader.read(n)` -/
inductive Read where
  | data (b : Bytes)      -- `b = []` is what `read` returns at end of stream
  | eof
  | err                   -- the read raised (connection reset, time-out, …)
deriving Repr, DecidableEq

/-- how the receiver loop stands after the reads so far -/
inductive End where
  | reading (buf : Bytes)   -- still open; `buf` = bytes received that do not yet make a frame
  | closed                  -- end of stream seen: writer closed, loop ended normally
  | failed                  -- transport error raised out of the loop
deriving Repr, DecidableEq

/-- the receiver loop over a byte-stream transport: items dispatched, in order, and where it stands -/
def tcpLoop {β : Type} (parse : Bytes → List β) : Bytes → List Read → List β × End
  | buf, [] => ([], .reading buf)
  | _, .eof :: _ => ([], .closed)
  | _, .err :: _ => ([], .failed)
  | buf, .data c :: rs =>
    if c = [] then ([], .closed)
    else
      let r := feed parse buf c
      let r' := tcpLoop parse r.2 rs
      (r.1 ++ r'.1, r'.2)

/-- one queue entry of a message transport: a frame object or invalid-frame marker put there by
the transport's pump (already parsed, one message = one `receive_data(msg, 0)`), or an exception -/
inductive QItem (β : Type) where
  | item (x : β)
  | exc
deriving Repr

/-- the receiver loop over `AbstractMessagingTransport.next_frame_generator`: one queue entry per
iteration, an exception entry is raised -/
def msgQueueLoop {β : Type} : List (QItem β) → List β × Bool      -- (dispatched, failed)
  | [] => ([], false)
  | .exc :: _ => ([], true)
  | .item x :: rest => let r := msgQueueLoop rest; (x :: r.1, r.2)

/-- what a websocket hands to a transport's message pump: a binary message, any other kind of
message (text, ping, ...), or the iteration failing -/
inductive WsMsg where
  | binary (b : Bytes)
  | other
  | fail
deriving Repr, DecidableEq

/-- frames one binary message contributes: `FrameParser.receive_data(message, 0)`; the empty
message yields nothing -/
def bodyItems {β : Type} (parse : Bytes → List β) : WsMsg → List β
  | .binary b => if b = [] then [] else parse b
  | _ => []

/-- the message pump of the websocket transports (`handle_incoming_ws_messages`): binary messages
are parsed and their frames queued, other messages are skipped; when the iteration fails the client
transport queues a transport error (`queuesFailure`), the server-side one lets it propagate to the
web framework's handler -/
def pump {β : Type} (queuesFailure : Bool) (parse : Bytes → List β) : List WsMsg → List (QItem β)
  | [] => []
  | .fail :: _ => if queuesFailure then [.exc] else []
  | m :: r => (bodyItems parse m).map .item ++ pump queuesFailure parse r

end RSocketModel.Transport
