/-
Model of `rsocket/stream_control.py` : `StreamControl.allocate_stream`,
`_increment_stream_id`, `register_stream`, `finish_stream`,
`assert_stream_id_available`.

The id width `k` is a parameter (`_maximum_stream_id = 2^k - 1`); the code's
`& mask` is `% 2^k` for such masks (checked against the code by the
correspondence run and by `Gen.Constants.maxStreamId_is_mask`).
-/
namespace RSocketModel.StreamId

/-- `_increment_stream_id`: `(cur + 2) & (2^k - 1)`. -/
def incr (k cur : Nat) : Nat := (cur + 2) % 2 ^ k

/-- The `while` loop of `allocate_stream`, `fuel` = attempts still allowed.
Returns the id found (or `none` = `RSocketStreamAllocationFailure`) and the new
value of `_current_stream_id` (the code leaves it advanced even on failure). -/
def allocLoop (k : Nat) (active : Nat → Bool) : Nat → Nat → Option Nat × Nat
  | 0, cur => (none, cur)
  | fuel + 1, cur =>
    let c := incr k cur
    if c == 0 || active c then allocLoop k active fuel c else (some c, c)

/-- `attempt_counter > maximum / 2` (float division) first holds at
`attempt_counter = 2^(k-1)`: exactly `2^(k-1)` attempts are made. -/
def attempts (k : Nat) : Nat := 2 ^ (k - 1)

def alloc (k : Nat) (active : Nat → Bool) (cur : Nat) : Option Nat × Nat :=
  allocLoop k active (attempts k) cur

/-- `StreamControl.__init__`: `(first - 2) & mask`, computed without negative numbers. -/
def initCur (k first : Nat) : Nat := (first + 2 ^ k - 2) % 2 ^ k

/-! ### The stream table as a history machine -/

structure State where
  k : Nat
  cur : Nat
  active : List Nat
deriving Repr

inductive Op where
  | allocate            -- `allocate_stream()` followed by `register_stream(result)`
  | allocateOnly        -- `allocate_stream()` not followed by a registration (fire-and-forget)
  | register (id : Nat) -- `register_stream(id)` for a peer-chosen id
  | finish (id : Nat)   -- `finish_stream(id)`
  | query (id : Nat)    -- `assert_stream_id_available(id)`
deriving Repr

inductive Out where
  | allocated (id : Nat)
  | allocationFailure
  | registered
  | registerRejected       -- id 0 or id > mask : RuntimeError
  | finished
  | available (b : Bool)   -- `false` = `RSocketStreamIdInUse` (REJECTED)
deriving Repr, DecidableEq

def State.isActive (s : State) (id : Nat) : Bool := s.active.contains id

def step (s : State) : Op → State × Out
  | .allocate =>
    match alloc s.k s.isActive s.cur with
    | (some id, c) => ({ s with cur := c, active := id :: s.active }, .allocated id)
    | (none, c) => ({ s with cur := c }, .allocationFailure)
  | .allocateOnly =>
    match alloc s.k s.isActive s.cur with
    | (some id, c) => ({ s with cur := c }, .allocated id)
    | (none, c) => ({ s with cur := c }, .allocationFailure)
  | .register id =>
    if id == 0 || id ≥ 2 ^ s.k then (s, .registerRejected)
    else ({ s with active := id :: s.active.filter (· != id) }, .registered)
  | .finish id => ({ s with active := s.active.filter (· != id) }, .finished)
  | .query id => (s, .available (!s.isActive id))

def init (k first : Nat) : State := { k := k, cur := initCur k first, active := [] }

/-- Run a history, returning the final state and every output together with the
state it was produced in. -/
def run (s : State) : List Op → List (State × Out)
  | [] => []
  | op :: ops => let r := step s op; (s, r.2) :: run r.1 ops

def final (s : State) : List Op → State
  | [] => s
  | op :: ops => final (step s op).1 ops

/-! ### `stop_all_streams`

The code walks over a *snapshot* of the table (`list(self._streams.items())`); failing a requester
runs application code (`on_error`), which may issue a new request at once: a stream is allocated and
registered while the walk is still going on (`retry id = true`). Only the walked id is finished. -/

/-- One walked id: the owner's reaction (a new stream, or nothing), then `finish_stream(id)`.
Returns the new state and the id registered meanwhile (if any). -/
def sweepOne (retry : Nat → Bool) (s : State) (id : Nat) : State × List Nat :=
  let r : State × List Nat :=
    if retry id then
      match step s .allocate with
      | (s', .allocated n) => (s', [n])
      | (s', _) => (s', [])
    else (s, [])
  ((step r.1 (.finish id)).1, r.2)

def sweepLoop (retry : Nat → Bool) : State → List Nat → State × List Nat
  | s, [] => (s, [])
  | s, id :: rest =>
    let r := sweepOne retry s id
    let t := sweepLoop retry r.1 rest
    (t.1, r.2 ++ t.2)

/-- `stop_all_streams()`: final table and the ids registered while it ran. -/
def sweep (retry : Nat → Bool) (s : State) : State × List Nat := sweepLoop retry s s.active

/-- `assert_stream_id_available` -/
def available (s : State) (id : Nat) : Bool := !s.isActive id

end RSocketModel.StreamId
