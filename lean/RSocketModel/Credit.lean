/-!
Model of the library's credit-driven stream sources:
`streams/stream_from_generator.py` (`StreamFromGenerator`, and `StreamFromAsyncGenerator` which only
changes how the next value is obtained) and `reactivex|rx_support/back_pressure_publisher.py`
(`from_async_event_iterator` behind `BackPressurePublisher`).

All of them keep a queue of the credits received (`request(n)`), and a producer task that, for each
credit value `n`, produces at most `n` items, one per event-loop iteration. The generator sources
push items to a second queue drained by a feeder task; the Rx source delivers directly (modelled as
produce immediately followed by feed). asyncio's interleaving of the two tasks is abstracted to
arbitrary sequences of `produce` / `feed` events.
-/
namespace RSocketModel.Credit

/-- an item travelling to the subscriber: an element (possibly flagged complete) or the bare
completion marker -/
inductive Item (α : Type) where
  | elem (x : α) (complete : Bool)
  | complete
  | error
deriving Repr, DecidableEq

structure State (α : Type) where
  src : List α            -- elements the source has not produced yet
  flagged : Bool          -- the source flags its last element as complete (else completion is a separate item)
  failing : Bool          -- the source raises instead of completing
  creditQ : List Nat      -- credits received and not yet taken by the producer
  cur : Nat               -- what is left of the credit value being served
  outQ : List (Item α)    -- produced, not yet delivered
  emitted : List α        -- elements delivered to the subscriber (→ PAYLOAD frames)
  terminal : Option Bool  -- `some true` completed, `some false` errored
  producerDone : Bool
  cancelled : Bool
  received : Nat          -- (ghost) total credit received
deriving Repr

def init {α : Type} (src : List α) (flagged failing : Bool) : State α :=
  { src := src, flagged := flagged, failing := failing, creditQ := [], cur := 0, outQ := [], emitted := [], terminal := none,
    producerDone := false, cancelled := false, received := 0 }

inductive Ev where
  | request (n : Nat)
  | produce
  | feed
  | cancel
deriving Repr, DecidableEq

def step {α : Type} (s : State α) : Ev → State α
  | .request n => if s.cancelled then s else { s with creditQ := s.creditQ ++ [n], received := s.received + n }
  | .produce =>
    if s.cancelled || s.producerDone then s
    else if s.cur = 0 then
      match s.creditQ with
      | [] => s
      | n :: rest => { s with cur := n, creditQ := rest }
    else
      match s.src with
      | x :: rest =>
        let last := rest.isEmpty && s.flagged
        { s with src := rest, cur := s.cur - 1, outQ := s.outQ ++ [.elem x last], producerDone := last }
      | [] => { s with outQ := s.outQ ++ [if s.failing then .error else .complete], producerDone := true }
  | .feed =>
    if s.cancelled then s
    else
      match s.outQ with
      | [] => s
      | .elem x c :: rest => { s with outQ := rest, emitted := s.emitted ++ [x], terminal := if c then some true else s.terminal }
      | .complete :: rest => { s with outQ := rest, terminal := some true }
      | .error :: rest => { s with outQ := rest, terminal := some false }
  | .cancel => { s with cancelled := true }

def run {α : Type} (s : State α) (evs : List Ev) : State α := evs.foldl step s

def elems {α : Type} : List (Item α) → List α
  | [] => []
  | .elem x _ :: rest => x :: elems rest
  | _ :: rest => elems rest

/-- let both tasks run until nothing more can happen (`fuel` bounds the number of rounds) -/
def quiesce {α : Type} (s : State α) : Nat → State α
  | 0 => s
  | fuel + 1 => quiesce (step (step s .produce) .feed) fuel

end RSocketModel.Credit
