import RSocketModel.Codec
/-!
Model of the exception ↔ ERROR-frame conversion of `rsocket/frame.py`
(`exception_to_error_frame`, used by `RSocketBase.send_error` for every failure that is answered on
a stream, and `error_frame_to_exception`, used by every requester-side handler).

Texts are byte strings here: `ensure_bytes(str)` is the UTF-8 encoding and `bytes.decode()` its
inverse on what it produced; the correspondence run uses texts with multi-byte characters.
-/
namespace RSocketModel.Errors
open RSocketModel.Codec

/-- what the failing side raised: an `RSocketProtocolError` (error code, `data` text or `None`), or
any other exception (`str(exception)`) -/
inductive Exc where
  | protocol (code : Nat) (text : Option Bytes)
  | other (text : Bytes)
deriving Repr, DecidableEq

def applicationError : Nat := 0x201

/-- `ensure_bytes(exception.data)`: `None` is sent as an empty text -/
def textOf : Option Bytes → Bytes
  | none => []
  | some b => b

/-- `exception_to_error_frame(stream_id, exception)` -/
def toErrorFrame (sid : Nat) : Exc → Frame
  | .protocol c t => .error sid false c (textOf t)
  | .other t => .error sid false applicationError t

/-- what the requester's application is handed: `RSocketProtocolError(code, data=text)` or
`RuntimeError(text)` -/
inductive PeerExc where
  | protocol (code : Nat) (text : Bytes)
  | runtime (text : Bytes)
deriving Repr, DecidableEq

/-- `error_frame_to_exception(frame)` -/
def ofErrorFrame : Frame → Option PeerExc
  | .error _ _ c d => some (if c = applicationError then .runtime d else .protocol c d)
  | _ => none

/-- the exception the peer's application should see for `e` -/
def seenByPeer : Exc → PeerExc
  | .protocol c t => if c = applicationError then .runtime (textOf t)
                     else .protocol c (textOf t)
  | .other t => .runtime t

end RSocketModel.Errors
