import RSocketModel.Engine.Net
import RSocketModel.Engine.WireLegal
/-!
Lemmas about the two-endpoint model (`Engine/Net.lean`): per-entry-point facts about the engine
(what a received frame can hand to the application, that queued frames are unfragmented, that the
reassembly cache stays empty when only whole frames arrive), and the history invariant that links
the frames processed by one endpoint to the frames queued by the other.
-/
namespace RSocketModel.Engine

/-! ### the reassembly cache stays empty when only whole frames arrive -/

theorem cacheAppend_whole (st : State) (f : Frame) (hc : st.cache = []) (hf : f.follows = false) :
    cacheAppend st f = (st, some (.ok f)) := by
  simp [cacheAppend, hc, hf]

@[simp] theorem finish_cache_nil (st : State) (sid : Nat) (h : st.cache = []) : (st.finish sid).cache = [] := by
  simp [State.finish, h]
@[simp] theorem unregister_cache (st : State) (sid : Nat) : (st.unregister sid).cache = st.cache := rfl
@[simp] theorem setObj_cache (st : State) (oid : Nat) (s : Stream) : (st.setObj oid s).cache = st.cache := rfl
@[simp] theorem register_cache (st : State) (s : Stream) : (st.register s).1.cache = st.cache := rfl
@[simp] theorem allocate_cache (st : State) : (allocate st).2.cache = st.cache := rfl

theorem markChannel_cache_nil (st : State) (oid : Nat) (s : Stream) (r t : Bool) (h : st.cache = []) :
    (markChannel st oid s r t).cache = [] := by
  unfold markChannel
  simp only
  split <;> simp [State.finish, State.setObj, h]

theorem apiStep_cache_nil (st : State) (ev : Ev) (h : st.cache = []) : (apiStep st ev).1.cache = [] := by
  have hal : (allocate st).2.cache = [] := h
  cases ev <;> simp only [apiStep]
  all_goals try (revert hal; generalize allocate st = r; intro hal; rcases r with ⟨_ | sid, st1⟩ <;> simp only at hal ⊢)
  all_goals (repeat' split)
  all_goals simp_all [markChannel_cache_nil, State.finish, State.setObj, State.register]

theorem frameReceived_cache_nil (st : State) (oid : Nat) (s : Stream) (f : Frame) (h : st.cache = []) :
    (frameReceived st oid s f).1.cache = [] := by
  unfold frameReceived
  repeat' split
  all_goals simp_all [markChannel_cache_nil, State.finish, State.setObj]

theorem handleByType_cache_nil (st : State) (f : Frame) (b : Behaviour) (h : st.cache = []) :
    (handleByType st f b).1.cache = [] := by
  unfold handleByType
  simp only [State.register]
  repeat' split
  all_goals first
    | exact h
    | (repeat' (apply markChannel_cache_nil)) <;> exact h

theorem recvStep_cache_nil (st : State) (f : Frame) (b : Behaviour) (h : st.cache = []) (hf : f.follows = false) :
    (recvStep st f b).1.cache = [] := by
  unfold recvStep
  rw [cacheAppend_whole st f h hf]
  simp only [ite_self]
  repeat' split
  all_goals first | exact h | exact handleByType_cache_nil _ _ _ h | exact frameReceived_cache_nil _ _ _ _ h

theorem stopOne_cache_nil (st : State) (sid oid : Nat) (h : st.cache = []) : (stopOne st sid oid).1.cache = [] := by
  unfold stopOne
  repeat' split
  all_goals simp_all [State.finish, State.setObj, State.unregister]

theorem stopAll_cache_nil (l : List (Nat × Nat)) : ∀ (st : State), st.cache = [] → (stopAll st l).1.cache = [] := by
  induction l with
  | nil => intro st h; exact h
  | cons p r ih =>
    intro st h
    rcases p with ⟨sid, oid⟩
    simp only [stopAll]
    exact ih _ (stopOne_cache_nil st sid oid h)

theorem step_cache_nil (st : State) (ev : Ev) (h : st.cache = []) (hf : ∀ f b, ev = .recv f b → f.follows = false) :
    (step st ev).1.cache = [] := by
  cases ev with
  | recv f b => exact recvStep_cache_nil st f b h (hf f b rfl)
  | lost =>
    simp only [step, lostStep]
    split
    · exact h
    · exact stopAll_cache_nil _ _ h
  | stopStreams => exact stopAll_cache_nil _ _ h
  | _ => exact apiStep_cache_nil st _ h

/-! ### every queued frame is a whole frame (fragmentation happens below the engine) -/

def pWhole (g : Frame) : Bool := !g.follows

theorem frameReceived_whole (st : State) (oid : Nat) (s : Stream) (f : Frame) :
    ∀ x ∈ (frameReceived st oid s f).2, x.sendAll pWhole = true := by
  unfold frameReceived
  cases s.kind <;> simp only <;> cases f.ty <;> simp only <;> (repeat' split) <;>
    simp [mkError, Out.sendAll, pWhole]

theorem handleByType_whole (st : State) (f : Frame) (b : Behaviour) (hf : f.follows = false) :
    ∀ x ∈ (handleByType st f b).2, x.sendAll pWhole = true := by
  unfold handleByType
  simp only [State.register]
  repeat' split
  all_goals simp [mkError, mkPayload, Out.sendAll, pWhole, hf]

theorem recvStep_whole (st : State) (f : Frame) (b : Behaviour) (hc : st.cache = []) (hf : f.follows = false) :
    ∀ x ∈ (recvStep st f b).2, x.sendAll pWhole = true := by
  unfold recvStep
  rw [cacheAppend_whole st f hc hf]
  simp only [ite_self]
  repeat' split
  all_goals first
    | (simp [Out.sendAll]; done)
    | exact handleByType_whole _ _ _ hf
    | exact frameReceived_whole _ _ _ _

theorem apiStep_whole (st : State) (ev : Ev) : ∀ x ∈ (apiStep st ev).2, x.sendAll pWhole = true := by
  cases ev <;> simp only [apiStep]
  all_goals try (generalize allocate st = r; rcases r with ⟨_ | sid, st1⟩ <;> simp only)
  all_goals (repeat' split)
  all_goals simp [Out.sendAll, pWhole, mkRequestN, mkPayload, mkError, mkCancel]

theorem step_whole (st : State) (ev : Ev) (hc : st.cache = []) (hf : ∀ f b, ev = .recv f b → f.follows = false) :
    ∀ g ∈ sends (step st ev).2, g.follows = false := by
  intro g hg
  have hg : Out.send g ∈ (step st ev).2 := by
    simp only [sends, List.mem_filterMap] at hg
    obtain ⟨o, ho, he⟩ := hg
    cases o <;> simp at he
    subst he; exact ho
  have hx := mem_emit _ _ _ hg
  have key : ∀ l : List Out, (∀ x ∈ l, x.sendAll pWhole = true) → Out.send g ∈ l → g.follows = false := by
    intro l hl hm
    simpa [Out.sendAll, pWhole] using hl _ hm
  cases ev with
  | recv f b => exact key _ (recvStep_whole st f b hc (hf f b rfl)) hx
  | lost =>
    simp only [lostStep] at hx
    split at hx
    · simp at hx
    · simp only [List.mem_append, List.mem_singleton] at hx
      rcases hx with hx | hx
      · exact absurd rfl (stopAll_targets st.table st _ hx)
      · cases hx
  | stopStreams => exact absurd rfl (stopAll_targets st.table st _ hx)
  | _ => exact key _ (apiStep_whole st _) hx

/-! ### what an entry point hands to the application -/

theorem filterMap_emit (st : State) (l : List Out) :
    (st.emit l).filterMap Out.deliveredData = l.filterMap Out.deliveredData := by
  unfold State.emit
  split
  · induction l with
    | nil => rfl
    | cons x r ih => cases x <;> simp [List.filter, List.filterMap, Out.deliveredData, ih]
  · rfl

/-- what a frame can put into the application's hands: its own payload, once, or nothing -/
def Frame.carried (f : Frame) : List (List Nat) :=
  if carriesPayload f.ty = true ∧ f.data ≠ [] then [f.data] else []

theorem frameReceived_delivers (st : State) (oid : Nat) (s : Stream) (f : Frame) :
    ((frameReceived st oid s f).2.filterMap Out.deliveredData).Sublist f.carried := by
  unfold frameReceived Frame.carried
  by_cases hd : f.data = []
  all_goals cases s.kind <;> simp only <;> cases hty : f.ty <;> simp only <;> (repeat' split) <;>
    simp_all [Out.deliveredData, carriesPayload, hd]

theorem handleByType_delivers (st : State) (f : Frame) (b : Behaviour) :
    ((handleByType st f b).2.filterMap Out.deliveredData).Sublist f.carried := by
  unfold handleByType Frame.carried
  simp only [State.register]
  by_cases hd : f.data = []
  all_goals (repeat' split) <;> simp_all [Out.deliveredData, carriesPayload, hd]

theorem recv_delivers (st : State) (f : Frame) (b : Behaviour) (hc : st.cache = []) (hf : f.follows = false) :
    ((step st (.recv f b)).2.filterMap Out.deliveredData).Sublist f.carried := by
  simp only [step, filterMap_emit]
  unfold recvStep
  rw [cacheAppend_whole st f hc hf]
  simp only [ite_self]
  repeat' split
  all_goals first
    | exact handleByType_delivers _ _ _
    | exact frameReceived_delivers _ _ _ _
    | exact List.nil_sublist _

theorem stopAll_no_delivery (l : List (Nat × Nat)) : ∀ (st : State), ∀ x ∈ (stopAll st l).2, x.deliveredData = none := by
  induction l with
  | nil => intro st x hx; simp [stopAll] at hx
  | cons p rest ih =>
    intro st x hx
    simp only [stopAll, List.mem_append, stopOne_outs] at hx
    rcases hx with hx | hx
    · rcases stopOuts_mentions _ _ _ hx with h | h | h | h <;> (subst h; rfl)
    · exact ih _ x hx

theorem apiStep_no_delivery (st : State) (ev : Ev) : ∀ x ∈ (apiStep st ev).2, x.deliveredData = none := by
  cases ev <;> simp only [apiStep]
  all_goals try (generalize allocate st = r; rcases r with ⟨_ | sid, st1⟩ <;> simp only)
  all_goals (repeat' split)
  all_goals simp [Out.deliveredData]

/-- an entry point other than a received frame hands no payload to the application -/
theorem local_delivers_nothing (st : State) (ev : Ev) (h : ev.isRecv = false) :
    (step st ev).2.filterMap Out.deliveredData = [] := by
  simp only [step, filterMap_emit]
  rw [List.filterMap_eq_nil_iff]
  intro x hx
  cases ev with
  | recv f b => simp [Ev.isRecv] at h
  | lost =>
    simp only [lostStep] at hx
    split at hx
    · simp at hx
    · simp only [List.mem_append, List.mem_singleton] at hx
      rcases hx with hx | rfl
      · exact stopAll_no_delivery _ _ x hx
      · rfl
  | stopStreams => exact stopAll_no_delivery _ _ x hx
  | _ => exact apiStep_no_delivery st _ x hx

/-! ### the pair: only whole frames are in flight, the reassembly caches stay empty -/

structure NetGood (n : Net) : Prop where
  cache : ∀ x, (n.st x).cache = []
  whole : ∀ x, ∀ f ∈ n.q x, f.follows = false

theorem netGood_init (lpA lpB : Bool) : NetGood (Net.init lpA lpB) :=
  ⟨by intro x; cases x <;> rfl, by intro x f hf; simp [Net.init] at hf⟩

theorem netGood_step (n : Net) (h : NetGood n) (ev : NEv) : NetGood (n.step ev).1 := by
  cases ev with
  | loc y ev =>
    simp only [Net.step]
    split
    · exact h
    · rename_i hr
      have hnr : ∀ f b, ev = .recv f b → f.follows = false := by
        intro f b he; subst he; simp [Ev.isRecv] at hr
      refine ⟨?_, ?_⟩
      · intro x
        by_cases hx : x = y
        · subst hx; simp only [upd, if_true]; exact step_cache_nil _ _ (h.cache x) hnr
        · simp only [upd, hx, if_false]; exact h.cache x
      · intro x f hf
        by_cases hx : x = y
        · subst hx
          simp only [upd, if_true, List.mem_append] at hf
          rcases hf with hf | hf
          · exact h.whole x f hf
          · exact step_whole _ _ (h.cache x) hnr f hf
        · simp only [upd, hx, if_false] at hf; exact h.whole x f hf
  | dlv y beh =>
    simp only [Net.step]
    split
    · exact h
    · rename_i f rest hq
      have hfw : f.follows = false := h.whole (!y) f (by rw [hq]; simp)
      have hnr : ∀ f' b, Ev.recv f beh = .recv f' b → f'.follows = false := by
        intro f' b he; cases he; exact hfw
      refine ⟨?_, ?_⟩
      · intro x
        by_cases hx : x = y
        · subst hx; simp only [upd, if_true]; exact step_cache_nil _ _ (h.cache x) hnr
        · simp only [upd, hx, if_false]; exact h.cache x
      · intro x g hg
        by_cases hx : x = y
        · subst hx
          simp only [upd, if_true, List.mem_append] at hg
          rcases hg with hg | hg
          · exact h.whole x g hg
          · exact step_whole _ _ (h.cache x) hnr g hg
        · have hx' : x = !y := by cases x <;> cases y <;> simp_all
          subst hx'
          simp only [upd, hx, if_false, if_true] at hg
          exact h.whole (!y) g (by rw [hq]; simp [hg])

theorem netGood_run (evs : List NEv) : ∀ n, NetGood n → NetGood (n.run evs).1 := by
  induction evs with
  | nil => intro n h; exact h
  | cons ev r ih => intro n h; exact ih _ (netGood_step n h ev)

/-! ### history: frames processed by one endpoint are a prefix of the frames queued by the other -/

def allSends (side : Bool) (tr : List NOut) : List Frame :=
  tr.flatMap (fun e => if e.side = side then sends e.outs else [])

theorem producedAt_eq (side : Bool) (s : Nat) (tr : List NOut) :
    producedAt side s tr = (allSends side tr).filterMap (Frame.payloadOn s) := by
  induction tr with
  | nil => rfl
  | cons e r ih =>
    simp only [producedAt, allSends, List.flatMap_cons, List.filterMap_append] at ih ⊢
    rw [ih]
    split <;> simp

theorem payloadOn_single (s : Nat) (f : Frame) :
    [f].filterMap (Frame.payloadOn s) = if f.sid = s then f.carried else [] := by
  simp only [List.filterMap_cons, List.filterMap_nil, Frame.payloadOn, Frame.carried]
  by_cases h1 : f.sid = s <;> by_cases h2 : carriesPayload f.ty = true <;> by_cases h3 : f.data = [] <;> simp [h1, h2, h3]

theorem neq_not (y : Bool) : (y = !y) = False := by cases y <;> simp
theorem not_neq (y : Bool) : ((!y) = y) = False := by cases y <;> simp

theorem deliver_gen (x : Bool) (s : Nat) : ∀ (evs : List NEv) (n : Net) (fed : List Frame) (D : List (List Nat)),
    NetGood n → D.Sublist (fed.filterMap (Frame.payloadOn s)) →
    (D ++ deliveredAt x s (n.run evs).2).Sublist
      ((fed ++ n.q (!x) ++ allSends (!x) (n.run evs).2).filterMap (Frame.payloadOn s)) := by
  intro evs
  induction evs with
  | nil =>
    intro n fed D _ hD
    simp only [Net.run, deliveredAt, allSends, List.flatMap_nil, List.append_nil, List.filterMap_append]
    exact hD.trans (List.sublist_append_left _ _)
  | cons ev r ih =>
    intro n fed D hg hD
    have hg' := netGood_step n hg ev
    simp only [Net.run, deliveredAt, allSends, List.flatMap_cons] at ih ⊢
    cases ev with
    | loc y ev =>
      by_cases hr : ev.isRecv = true
      · simp only [Net.step, hr, if_true] at hg' ⊢
        have := ih n fed D hg hD
        by_cases hy : y = x <;> by_cases hy' : y = !x <;> simpa [hy, hy', sends] using this
      · have hr : ev.isRecv = false := by simpa using hr
        simp only [Net.step, hr, Bool.false_eq_true, if_false] at hg' ⊢
        have := ih _ fed D hg' hD
        by_cases hy : y = x
        · subst hy
          simp only [if_true, local_delivers_nothing _ _ hr, List.nil_append, upd, not_neq, neq_not, if_false] at this ⊢
          exact this
        · have hy' : y = !x := by cases x <;> cases y <;> simp_all
          subst hy'
          simp only [not_neq, if_false, if_true, List.nil_append, upd, List.append_assoc] at this ⊢
          exact this
    | dlv y beh =>
      cases hq : n.q (!y) with
      | nil =>
        simp only [Net.step, hq] at hg' ⊢
        have := ih n fed D hg hD
        by_cases hy : y = x <;> by_cases hy' : y = !x <;> simpa [hy, hy', sends] using this
      | cons f rest =>
        simp only [Net.step, hq] at hg' ⊢
        by_cases hy : y = x
        · subst hy
          have hfw : f.follows = false := hg.whole (!y) f (by rw [hq]; simp)
          have hdel := recv_delivers (n.st y) f beh (hg.cache y) hfw
          have hD' : (D ++ (if f.sid = s then (Engine.step (n.st y) (.recv f beh)).2.filterMap Out.deliveredData else [])).Sublist
              ((fed ++ [f]).filterMap (Frame.payloadOn s)) := by
            rw [List.filterMap_append, payloadOn_single]
            refine List.Sublist.append hD ?_
            split
            · exact hdel
            · exact List.Sublist.refl _
          have := ih _ (fed ++ [f]) _ hg' hD'
          simp only [if_true, upd, not_neq, neq_not, if_false, List.nil_append, hq,
            List.append_assoc, List.cons_append] at this ⊢
          exact this
        · have hy' : y = !x := by cases x <;> cases y <;> simp_all
          subst hy'
          have := ih _ fed D hg' hD
          simp only [not_neq, if_false, if_true, List.nil_append, upd, List.append_assoc] at this ⊢
          exact this

end RSocketModel.Engine
