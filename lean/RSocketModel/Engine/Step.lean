import RSocketModel.Engine.Types
/-!
Engine model — the transition function. Transcribes (after the `fix:` commits recorded in
`known_findings.json`): `RSocketBase` request methods, `_handle_next_frame`, the `handle_*`
methods, `StreamControl.handle_stream` / `stop_all_streams`, and `frame_received` / subscriber /
subscription methods of every handler class.
-/
namespace RSocketModel.Engine

/-! ### table / heap helpers -/

def State.oidOf (st : State) (sid : Nat) : Option Nat := (st.table.find? (·.1 == sid)).map (·.2)
def State.obj (st : State) (oid : Nat) : Option Stream := st.heap[oid]?
def State.setObj (st : State) (oid : Nat) (s : Stream) : State := { st with heap := st.heap.set oid s }
def State.isActive (st : State) (sid : Nat) : Bool := st.table.any (·.1 == sid)

/-- `RSocketBase.finish_stream`: drop the table entry and any partial frame of that stream -/
def State.finish (st : State) (sid : Nat) : State :=
  { st with table := st.table.filter (·.1 != sid), cache := st.cache.filter (·.1 != sid) }

/-- `StreamControl.finish_stream` alone (as `stop_all_streams` calls it): the table entry only -/
def State.unregister (st : State) (sid : Nat) : State :=
  { st with table := st.table.filter (·.1 != sid) }

/-- `_register_stream`: a new handler object, registered under `sid` (replacing any entry) -/
def State.register (st : State) (s : Stream) : State × Nat :=
  let oid := st.heap.length
  ({ st with heap := st.heap ++ [s], table := st.table.filter (·.1 != s.sid) ++ [(s.sid, oid)] }, oid)

/-- frames queued after the connection is closed are never sent -/
def State.emit (st : State) (outs : List Out) : List Out :=
  if st.closed then outs.filter (fun o => match o with | .send _ => false | _ => true) else outs

def mkPayload (sid : Nat) (data : List Nat) (complete : Bool) : Frame :=
  { ty := .payload, sid := sid, data := data, complete := complete, next := !data.isEmpty }
def mkError (sid code : Nat) : Frame := { ty := .error, sid := sid, code := code }
def mkCancel (sid : Nat) : Frame := { ty := .cancel, sid := sid }
def mkRequestN (sid n : Nat) : Frame := { ty := .requestN, sid := sid, n := n }

/-- `RequestChannelCommon.mark_completed_and_finish` -/
def markChannel (st : State) (oid : Nat) (s : Stream) (received sent : Bool) : State :=
  let s' := { s with recvComplete := s.recvComplete || received, sentComplete := s.sentComplete || sent }
  let st' := st.setObj oid s'
  if s'.recvComplete && s'.sentComplete then st'.finish s.sid else st'

/-! ### local API -/

def allocate (st : State) : Option Nat × State :=
  let r := StreamId.alloc 31 st.isActive st.cur
  (r.1, { st with cur := r.2 })

def apiStep (st : State) : Ev → State × List Out
  | .requestResponse data =>
    match allocate st with
    | (none, st) => (st, [.raised "allocation"])
    | (some sid, st) =>
      let (st, oid) := st.register { kind := .rrReq, sid := sid, payload := data }
      (st, [.created oid sid, .send { ty := .requestResponse, sid := sid, data := data }])
  | .fireAndForget data =>
    match allocate st with
    | (none, st) => (st, [.raised "allocation"])
    | (some sid, st) => (st, [.send { ty := .requestFnf, sid := sid, data := data }])
  | .metadataPush data => (st, [.send { ty := .metadataPush, sid := 0, data := data }])
  | .requestStream data n subscribeNow =>
    match allocate st with
    | (none, st) => (st, [.raised "allocation"])
    | (some sid, st) =>
      -- (fix F18: the request frame is queued before `on_subscribe` runs, so whatever the subscriber does inside it follows the request)
      -- a refused `initial_request_n(0)` leaves the default MAX_REQUEST_N in the object
      let (st, oid) := st.register { kind := .stReq, sid := sid, payload := data, n0 := if n = 0 then 2147483647 else n }
      if n = 0 then (st.finish sid, [.created oid sid, .raised "initial-request-n"])
      else if subscribeNow then
        (st.setObj oid { kind := .stReq, sid := sid, payload := data, n0 := n, subscribed := true },
         [.created oid sid, .send { ty := .requestStream, sid := sid, n := n, data := data }, .onSubscribe oid])
      else (st, [.created oid sid])
  | .requestChannel data n hasPub subscribeNow =>
    match allocate st with
    | (none, st) => (st, [.raised "allocation"])
    | (some sid, st) =>
      let s : Stream := { kind := .chReq, sid := sid, payload := data, n0 := if n = 0 then 2147483647 else n, pubGiven := hasPub }
      let (st, oid) := st.register s
      if n = 0 then (st.finish sid, [.created oid sid, .raised "initial-request-n"])
      else if subscribeNow then
        let s' := { s with subscribed := true, hasPub := hasPub, setupDone := true }
        let st := st.setObj oid s'
        let outs := [.created oid sid] ++ (if hasPub then [.pubSubscribe oid] else []) ++
          [.send { ty := .requestChannel, sid := sid, n := n, data := data, complete := !hasPub }, .onSubscribe oid]
        (if hasPub then st else markChannel st oid s' false true, outs)
      else (st, [.created oid sid])
  | .subscribe oid =>
    match st.obj oid with
    | some s =>
      if s.subscribed then (st, []) else
      match s.kind with
      | .stReq =>
        (st.setObj oid { s with subscribed := true },
         [.send { ty := .requestStream, sid := s.sid, n := s.n0, data := s.payload }, .onSubscribe oid])
      | .chReq =>
        let s' := { s with subscribed := true, hasPub := s.pubGiven, setupDone := true }
        let st := st.setObj oid s'
        let outs := (if s.pubGiven then [.pubSubscribe oid] else []) ++
          [.send { ty := .requestChannel, sid := s.sid, n := s.n0, data := s.payload, complete := !s.pubGiven }, .onSubscribe oid]
        (if s.pubGiven then st else markChannel st oid s' false true, outs)
      | _ => (st, [])
    | none => (st, [])
  | .subRequest oid n =>
    match st.obj oid with
    | some s =>
      match s.kind with
      | .stReq | .chReq | .chResp => (st, [.send (mkRequestN s.sid n)])
      | _ => (st, [])
    | none => (st, [])
  | .subCancel oid =>
    match st.obj oid with
    | some s =>
      match s.kind with
      | .stReq => (st.finish s.sid, [.send (mkCancel s.sid)])
      | .chReq | .chResp => (markChannel st oid s true false, [.send (mkCancel s.sid)])
      | _ => (st, [])
    | none => (st, [])
  | .futCancel oid =>
    match st.obj oid with
    | some s =>
      if s.kind == .rrReq && s.fut == .pending then (st.setObj oid { s with fut := .cancelled, cb := true }, [])
      else (st, [])
    | none => (st, [])
  | .pubNext oid data complete =>
    match st.obj oid with
    | some s =>
      match s.kind with
      | .stResp => (if complete then st.finish s.sid else st, [.send (mkPayload s.sid data complete)])
      | .chReq | .chResp =>
        (if complete then markChannel st oid s false true else st, [.send (mkPayload s.sid data complete)])
      | _ => (st, [])
    | none => (st, [])
  | .pubComplete oid =>
    match st.obj oid with
    | some s =>
      match s.kind with
      | .stResp => (st.finish s.sid, [.send (mkPayload s.sid [] true)])
      | .chReq | .chResp => (markChannel st oid s false true, [.send (mkPayload s.sid [] true)])
      | _ => (st, [])
    | none => (st, [])
  | .pubError oid =>
    match st.obj oid with
    | some s =>
      match s.kind with
      | .stResp => (st.finish s.sid, [.send (mkError s.sid cApplicationError)])
      | .chReq | .chResp => (markChannel st oid s false true, [.send (mkError s.sid cApplicationError)])
      | _ => (st, [])
    | none => (st, [])
  | .hfResolve oid data =>
    match st.obj oid with
    | some s =>
      if s.kind == .rrResp && s.fut == .pending then (st.setObj oid { s with fut := .ok, result := data, cb := true }, [])
      else (st, [])
    | none => (st, [])
  | .hfFail oid =>
    match st.obj oid with
    | some s =>
      if s.kind == .rrResp && s.fut == .pending then (st.setObj oid { s with fut := .err, cb := true }, [])
      else (st, [])
    | none => (st, [])
  | .cbRRReq oid =>
    match st.obj oid with
    | some s =>
      if s.kind == .rrReq && s.cb then
        let st := st.setObj oid { s with cb := false }
        if s.fut == .cancelled && !s.responseReceived then (st.finish s.sid, [.send (mkCancel s.sid)])
        else (st, [])
      else (st, [])
    | none => (st, [])
  | .cbRRResp oid =>
    match st.obj oid with
    | some s =>
      if s.kind == .rrResp && s.cb then
        let st := (st.setObj oid { s with cb := false }).finish s.sid
        match s.fut with
        | .ok => (st, [.send (mkPayload s.sid s.result true)])
        | .err => (st, [.send (mkError s.sid cApplicationError)])
        | _ => (st, [])
      else (st, [])
    | none => (st, [])
  | .fnfSent sid => (st.finish sid, [])
  | _ => (st, [])

/-! ### received frames -/

def isFragmentable : FType → Bool
  | .payload | .requestResponse | .requestFnf | .requestStream | .requestChannel => true
  | _ => false

def isInitiate : FType → Bool
  | .requestResponse | .requestFnf | .requestStream | .requestChannel => true
  | _ => false

/-- `FrameFragmentCache.append` on the abstract frame: `none` = more fragments expected,
`some (Except.error ())` = `RSocketFrameFragmentDifferentType` -/
def cacheAppend (st : State) (f : Frame) : State × Option (Except Unit Frame) :=
  let cur := (st.cache.find? (·.1 == f.sid)).map (·.2)
  let merged : Except Unit Frame :=
    match cur with
    | none => .ok f
    | some c =>
      if f.ty != .payload then .error ()
      else .ok { c with complete := f.complete, next := if c.ty == .payload then f.next else c.next,
                         data := c.data ++ f.data }
  if f.follows then
    match merged with
    | .ok m => ({ st with cache := st.cache.filter (·.1 != f.sid) ++ [(f.sid, m)] }, none)
    | .error _ => (st, some (.error ()))
  else
    match cur with
    | none => (st, some (.ok f))
    | some _ =>
      match merged with
      | .ok m => ({ st with cache := st.cache.filter (·.1 != f.sid) }, some (.ok m))
      | .error _ => (st, some (.error ()))

/-- `frame_received` of the handler registered for the frame's stream -/
def frameReceived (st : State) (oid : Nat) (s : Stream) (f : Frame) : State × List Out :=
  match s.kind with
  | .rrReq =>
    match f.ty with
    | .payload =>
      let s' := { s with responseReceived := true }
      if s.fut == .pending then
        ((st.setObj oid { s' with fut := .ok, cb := true }).finish s.sid, [.futResult oid f.data])
      else ((st.setObj oid s').finish s.sid, [])
    | .error =>
      let s' := { s with responseReceived := true }
      if s.fut == .pending then
        -- `error_frame_to_exception` decodes the text: undecodable text raises before the future is touched
        if f.respond then (st.setObj oid s', [.send (mkError f.sid cApplicationError)])
        else ((st.setObj oid { s' with fut := .err, cb := true }).finish s.sid, [.futError oid f.code])
      else ((st.setObj oid s').finish s.sid, [])
    | _ => (st, [])
  | .rrResp =>
    match f.ty with
    | .cancel =>
      if s.fut == .pending then
        ((st.setObj oid { s with fut := .cancelled, cb := true }).finish s.sid, [.hfCancel oid])
      else (st.finish s.sid, [])
    | _ => (st, [])
  | .stReq =>
    match f.ty with
    | .payload =>
      if !s.subscribed then                                                    -- AttributeError: no subscriber yet
        (st, if f.next || f.complete then [.send (mkError f.sid cApplicationError)] else [])
      else
        let outs := if f.next then [.onNext oid f.data f.complete] else if f.complete then [.onComplete oid] else []
        (if f.complete then st.finish s.sid else st, outs)
    | .error =>
      if !s.subscribed || f.respond then (st, [.send (mkError f.sid cApplicationError)])
      else (st.finish s.sid, [.onError oid f.code])
    | _ => (st, [])
  | .stResp =>
    match f.ty with
    | .cancel => (st.finish s.sid, [.pubCancel oid])
    | .requestN => (st, [.pubRequest oid f.n])
    | _ => (st, [])
  | .chReq | .chResp =>
    match f.ty with
    | .cancel =>
      if s.hasPub then (markChannel st oid s false true, [.pubCancel oid])
      else (st, [.send (mkError f.sid cApplicationError)])                     -- `None.cancel()`
    | .requestN =>
      if !s.setupDone then (st, [.send (mkError f.sid cApplicationError)])     -- `self.subscriber` is None
      else (st, if s.hasPub then [.pubRequest oid f.n] else [])
    | .payload =>
      if s.recvComplete then (st, [])                                          -- fix F8
      else if f.next then
        if !s.subscribed then (st, [.send (mkError f.sid cApplicationError)])  -- no remote subscriber
        else (if f.complete then markChannel st oid s true false else st, [.onNext oid f.data f.complete])
      else if f.complete then
        if !s.subscribed then (st, [.send (mkError f.sid cApplicationError)])
        else (markChannel st oid s true false, [.onComplete oid])
      else (st, [])
    | .error =>
      if s.recvComplete then (st, [])
      else if !s.subscribed || f.respond then (st, [.send (mkError f.sid cApplicationError)])
      else (markChannel st oid s true false, [.onError oid f.code])
    | _ => (st, [])

/-- the `handle_*` methods for request-initiating frames and stream-0 frames -/
def handleByType (st : State) (f : Frame) (b : Behaviour) : State × List Out :=
  match f.ty with
  | .requestResponse =>
    if st.isActive f.sid then (st, [.send (mkError f.sid cRejected)])
    else
      match b with
      | .futPending | .futReady _ | .futFailed =>
        if f.sid = 0 then (st, [.handlerCall f.ty f.data, .send (mkError 0 cApplicationError)])
        else
          let fut : Fut := match b with | .futReady _ => .ok | .futFailed => .err | _ => .pending
          let res : List Nat := match b with | .futReady d => d | _ => []
          let (st, oid) := st.register { kind := .rrResp, sid := f.sid, fut := fut, result := res, cb := fut != .pending }
          (st, [.handlerCall f.ty f.data, .created oid f.sid])
      | _ => (st, [.handlerCall f.ty f.data, .send (mkError f.sid cApplicationError)])
  | .requestStream =>
    if st.isActive f.sid then (st, [.send (mkError f.sid cRejected)])
    else
      match b with
      | .publisher =>
        if f.sid = 0 then (st, [.handlerCall f.ty f.data, .send (mkError 0 cApplicationError)])
        else
          let (st, oid) := st.register { kind := .stResp, sid := f.sid, hasPub := true }
          (st, [.handlerCall f.ty f.data, .created oid f.sid, .pubSubscribe oid, .pubRequest oid f.n])
      | _ => (st, [.handlerCall f.ty f.data, .send (mkError f.sid cApplicationError)])
  | .requestChannel =>
    if st.isActive f.sid then (st, [.send (mkError f.sid cRejected)])
    else
      match b with
      | .channel hasPub hasSub =>
        if f.sid = 0 then (st, [.handlerCall f.ty f.data, .send (mkError 0 cApplicationError)])
        else
          let s : Stream := { kind := .chResp, sid := f.sid, hasPub := hasPub, subscribed := hasSub, setupDone := true }
          let (st, oid) := st.register s
          -- subscribe(subscriber)
          let o1 : List Out := [.handlerCall f.ty f.data, .created oid f.sid] ++ (if hasSub then [.onSubscribe oid] else [])
          let st := if hasSub then st else markChannel st oid s true false
          let s := (st.obj oid).getD s
          -- frame_received(REQUEST_CHANNEL)
          let o2 : List Out := (if hasPub then [.pubSubscribe oid, .pubRequest oid f.n] else [.send (mkPayload f.sid [] true)])
          let st := if hasPub then st else markChannel st oid s false true
          let s := (st.obj oid).getD s
          let o3 : List Out := if f.complete && hasSub then [.onComplete oid] else []
          let st := if f.complete then markChannel st oid s true false else st
          (st, o1 ++ o2 ++ o3)
      | _ => (st, [.handlerCall f.ty f.data, .send (mkError f.sid cApplicationError)])
  | .requestFnf =>
    if st.isActive f.sid then (st, [.send (mkError f.sid cRejected)])
    else
      match b with
      | .raises => (st, [.handlerCall f.ty f.data, .send (mkError f.sid cApplicationError)])
      | _ => (st, [.handlerCall f.ty f.data])
  | .setup =>
    if f.respond then (st, [.send (mkError 0 cUnsupportedSetup)])               -- resume requested
    else if f.complete && !st.hasLeasePublisher then (st, [.send (mkError 0 cUnsupportedSetup)])
    else
      match b with
      | .raises => (st, [.handlerCall f.ty f.data, .send (mkError 0 cRejectedSetup)])
      | _ => (st, [.handlerCall f.ty f.data])
  | .metadataPush =>
    match b with
    | .raises => (st, [.handlerCall f.ty f.data, .send (mkError 0 cApplicationError)])
    | _ => (st, [.handlerCall f.ty f.data])
  | .resume => (st, [.send (mkError 0 cRejectedResume)])
  | .keepalive => (st, if f.respond then [.send { f with respond := false }] else [])
  | .error => (st, [.onErrorCb f.code])
  | _ => (st, [])

/-- `_handle_next_frame` -/
def recvStep (st : State) (f : Frame) (b : Behaviour) : State × List Out :=
  if st.closed then (st, []) else
  let (st, complete) : State × Option (Except Unit Frame) :=
    if isFragmentable f.ty then cacheAppend st f else (st, some (.ok f))
  match complete with
  | none => (st, [])
  | some (.error _) => (st, [.send (mkError f.sid cApplicationError)])
  | some (.ok cf) =>
    if cf.sid = 0 || isInitiate cf.ty then handleByType st cf b
    else
      match st.oidOf cf.sid with
      | none => (st, [.drop cf.sid])
      | some oid =>
        match st.obj oid with
        | none => (st, [.drop cf.sid])
        | some s => frameReceived st oid s cf

/-! ### connection loss: `stop_all_streams` + `on_close` -/

def stopOne (st : State) (sid oid : Nat) : State × List Out :=
  match st.obj oid with
  | none => (st.unregister sid, [])
  | some s =>
    match s.kind with
    | .rrReq =>                       -- synthetic ERROR: future failed if pending, `_finish_stream()`
      let s' := { s with responseReceived := true }
      if s.fut == .pending then ((st.setObj oid { s' with fut := .err, cb := true }).finish sid, [.futError oid cConnectionError])
      else ((st.setObj oid s').finish sid, [])
    | .stReq =>                       -- synthetic ERROR: `on_error` + `_finish_stream()`; without a subscriber it raises (caught)
      if s.subscribed then (st.finish sid, [.onError oid cConnectionError]) else (st.unregister sid, [])
    | .rrResp =>                      -- `dispose()`: cancel the handler's future
      if s.fut == .pending then ((st.setObj oid { s with fut := .cancelled, cb := true }).unregister sid, [.hfCancel oid])
      else (st.unregister sid, [])
    | .stResp => (st.unregister sid, if s.hasPub then [.pubCancel oid] else [])
    | .chReq =>                       -- synthetic ERROR (ignored once the receiving direction is closed), then `dispose()`
      let o2 : List Out := if s.hasPub then [.pubCancel oid] else []
      if !s.recvComplete && s.subscribed then
        let st' := st.setObj oid { s with recvComplete := true }
        if s.sentComplete then (st'.finish sid, [.onError oid cConnectionError] ++ o2)
        else (st'.unregister sid, [.onError oid cConnectionError] ++ o2)
      else (st.unregister sid, o2)
    | .chResp => (st.unregister sid, if s.hasPub then [.pubCancel oid] else [])

def stopAll (st : State) : List (Nat × Nat) → State × List Out
  | [] => (st, [])
  | (sid, oid) :: rest =>
    let (st1, o1) := stopOne st sid oid
    let (st2, o2) := stopAll st1 rest
    (st2, o1 ++ o2)

def lostStep (st : State) : State × List Out :=
  if st.closed then (st, []) else
  let (st, outs) := stopAll st st.table
  ({ st with closed := true }, outs ++ [.onClose])

def stopStreamsStep (st : State) : State × List Out := stopAll st st.table

/-- one entry point -/
def step (st : State) (ev : Ev) : State × List Out :=
  let r := match ev with
    | .recv f b => recvStep st f b
    | .lost => lostStep st
    | .stopStreams => stopStreamsStep st
    | ev => apiStep st ev
  (r.1, st.emit r.2)

def run (st : State) : List Ev → State × List (List Out)
  | [] => (st, [])
  | ev :: evs =>
    let r := step st ev
    let r' := run r.1 evs
    (r'.1, r.2 :: r'.2)

end RSocketModel.Engine
