import RSocketModel.StreamId
/-!
Engine model — types. One endpoint of an RSocket connection at *event granularity*: every
application-visible effect of `rsocket_base.py`, `stream_control.py` and `handlers/*.py` happens
synchronously inside one entry point (a received frame, an API call, a publisher/subscriber/
future signal, a deferred done-callback, connection loss/close). asyncio only decides *when*
deferred callbacks run; they are kept in an explicit FIFO and run by the `runDeferred` event.

Payload content is abstract: a list of tags (fragments merge by append, `[]` is the empty payload).
-/
namespace RSocketModel.Engine

inductive FType where
  | setup | lease | keepalive | requestResponse | requestFnf | requestStream | requestChannel
  | requestN | cancel | payload | error | metadataPush | resume | resumeOk
deriving Repr, DecidableEq

structure Frame where
  ty : FType
  sid : Nat
  follows : Bool := false
  complete : Bool := false      -- also LEASE flag of SETUP
  next : Bool := false
  respond : Bool := false       -- KEEPALIVE respond / SETUP resume / ERROR: the error text is not valid UTF-8
  n : Nat := 0                  -- request-n / initial request-n / lease count
  code : Nat := 0               -- error code / lease ttl (ms)
  data : List Nat := []
deriving Repr, DecidableEq

/-- error codes (regenerated constants are checked equal in `Props`) -/
def cUnsupportedSetup := 2
def cRejectedSetup := 3
def cRejectedResume := 4
def cConnectionError := 257
def cApplicationError := 513
def cRejected := 514
def cCanceled := 515

inductive Kind where
  | rrReq | rrResp | stReq | stResp | chReq | chResp
deriving Repr, DecidableEq

inductive Fut where
  | pending | ok | err | cancelled
deriving Repr, DecidableEq

/-- one handler object (`handlers/*.py`). Objects outlive their registration in the stream table:
the application and deferred callbacks hold references to them. -/
structure Stream where
  kind : Kind
  sid : Nat
  fut : Fut := .pending             -- rrReq: the awaitable handed to the caller; rrResp: the handler's future
  result : List Nat := []           -- rrResp: value the handler's future resolved with
  responseReceived : Bool := false  -- rrReq (fix F7)
  subscribed : Bool := false        -- stReq: `_subscriber` set; channel: `remote_subscriber` set
  hasPub : Bool := false            -- stResp / channel: `subscriber.subscription` is set (a local publisher exists)
  pubGiven : Bool := false          -- chReq: a publisher was passed to `request_channel`
  setupDone : Bool := false         -- channel: `setup()` ran (`self.subscriber` exists)
  sentComplete : Bool := false      -- channel
  recvComplete : Bool := false      -- channel
  cb : Bool := false                -- a done-callback of `fut` is scheduled and has not run yet
  n0 : Nat := 0                     -- requester: initial request-n to put in the request frame
  payload : List Nat := []          -- requester: request payload
deriving Repr, DecidableEq

/-- what the application's `RequestHandler` does with an incoming request / setup (scripted) -/
inductive Behaviour where
  | raises                          -- the handler coroutine raises
  | ok                              -- fnf / metadata-push / setup: returns
  | futPending                      -- request_response: returns a pending future
  | futReady (data : List Nat)      -- … an already resolved future
  | futFailed                       -- … a future that already holds an exception
  | publisher                       -- request_stream: returns a publisher
  | channel (hasPub hasSub : Bool)  -- request_channel: (publisher or None, subscriber or None)
deriving Repr, DecidableEq

inductive Ev where
  -- local API (requester side)
  | requestResponse (data : List Nat)
  | fireAndForget (data : List Nat)
  | metadataPush (data : List Nat)
  | requestStream (data : List Nat) (n : Nat) (subscribeNow : Bool)
  | requestChannel (data : List Nat) (n : Nat) (hasPub subscribeNow : Bool)
  | subscribe (oid : Nat)
  | subRequest (oid : Nat) (n : Nat)       -- `Subscription.request(n)` on a requester / channel
  | subCancel (oid : Nat)                  -- `Subscription.cancel()`
  | futCancel (oid : Nat)                  -- the caller cancels the request-response awaitable
  -- local application producing (responder side, channel both sides)
  | pubNext (oid : Nat) (data : List Nat) (complete : Bool)
  | pubComplete (oid : Nat)
  | pubError (oid : Nat)
  | hfResolve (oid : Nat) (data : List Nat)   -- the handler's future gets a result
  | hfFail (oid : Nat)                        -- … an exception
  -- network
  | recv (f : Frame) (b : Behaviour)
  | lost                                      -- `_on_connection_closed`: the receiver ended (EOF, transport error, close())
  | stopStreams                               -- `stop_all_streams` alone (the client's reconnect listener being cancelled)
  -- scheduler: the event loop runs a pending done-callback (any order is allowed by the model)
  | cbRRReq (oid : Nat)                       -- `RequestResponseRequester._on_future_complete`
  | cbRRResp (oid : Nat)                      -- `RequestResponseResponder.future_done`
  | fnfSent (sid : Nat)                       -- done-callback of a fire-and-forget's `sent_future`: `finish_stream(sid)`
deriving Repr, DecidableEq

inductive Out where
  | send (f : Frame)
  | onSubscribe (oid : Nat)
  | onNext (oid : Nat) (data : List Nat) (complete : Bool)
  | onComplete (oid : Nat)
  | onError (oid : Nat) (code : Nat)
  | futResult (oid : Nat) (data : List Nat)
  | futError (oid : Nat) (code : Nat)
  | pubSubscribe (oid : Nat)
  | pubRequest (oid : Nat) (n : Nat)
  | pubCancel (oid : Nat)
  | hfCancel (oid : Nat)
  | handlerCall (ty : FType) (data : List Nat)
  | onErrorCb (code : Nat)
  | onClose
  | drop (sid : Nat)                 -- frame for an unknown stream dropped
  | created (oid : Nat) (sid : Nat)  -- a handler object came to life (for the harness to track references)
  | raised (what : String)           -- an exception reached the API caller
deriving Repr, DecidableEq

structure State where
  first : Nat                        -- 1 = client, 2 = server
  cur : Nat                          -- `StreamControl._current_stream_id`
  table : List (Nat × Nat)           -- stream id ↦ handler object id (`StreamControl._streams`, insertion order)
  heap : List Stream                 -- handler objects by id
  cache : List (Nat × Frame)         -- `FrameFragmentCache`: partially reassembled frame per stream
  hasLeasePublisher : Bool
  closed : Bool
deriving Repr

def init (first : Nat) (hasLeasePublisher : Bool := false) : State :=
  { first := first, cur := StreamId.initCur 31 first, table := [], heap := [], cache := [],
    hasLeasePublisher := hasLeasePublisher, closed := false }

end RSocketModel.Engine
