import RSocketModel.Engine.Cancel
/-!
Helper layer for C08: the reachable-state invariant `Inv08` (carried by `Ext`), soundness of
`allocate`, and the predicates `pN` / `pZero` / `pRecvTypes` shown to hold of every frame queued by
every entry point.
-/
namespace RSocketModel.Engine

/-- reachable-state invariant: the id counter stays in range with the endpoint's parity, and
every stream / channel requester object carries a positive initial request-n -/
structure Inv08 (st : State) : Prop where
  cur_lt : st.cur < 2 ^ 31
  cur_par : st.cur % 2 = st.first % 2
  n0 : ∀ oid s, st.obj oid = some s → N0ok s

theorem inv08_init (first : Nat) (hf : 1 ≤ first) (lp : Bool) : Inv08 (init first lp) :=
  ⟨StreamId.initCur_lt 31 first, StreamId.initCur_parity (by omega) first hf, by
    intro oid s hs; simp [State.obj, init] at hs⟩

theorem inv08_ext (st st' : State) (he : Ext st st') (h : Inv08 st) : Inv08 st' := by
  refine ⟨he.curlt h.cur_lt, by rw [he.curpar h.cur_lt, he.first]; exact h.cur_par, ?_⟩
  intro oid s' hs'
  cases ho : st.obj oid with
  | none => exact he.fresh oid s' hs' ho
  | some s =>
    obtain ⟨s2, hs2, hm⟩ := he.objs oid s ho
    rw [hs'] at hs2; cases hs2
    exact n0ok_mono hm (h.n0 oid s ho)

theorem inv08_run (evs : List Ev) : ∀ st, Inv08 st → Inv08 (run st evs).1 := by
  induction evs with
  | nil => intro st h; exact h
  | cons e es ih => intro st h; simp only [run]; exact ih _ (inv08_ext st _ (ext_step st e) h)

theorem allocate_sound (st : State) (h : Inv08 st) (sid : Nat) (st1 : State) (ha : allocate st = (some sid, st1)) :
    sid ≠ 0 ∧ sid % 2 = st.first % 2 ∧ st.isActive sid = false ∧ sid < 2 ^ 31 := by
  simp only [allocate] at ha
  rcases hal : StreamId.alloc 31 st.isActive st.cur with ⟨o, c⟩
  rw [hal] at ha
  simp only [Prod.mk.injEq] at ha
  obtain ⟨rfl, _⟩ := ha
  obtain ⟨h1, h2, h3, h4, _⟩ := StreamId.c13_alloc_sound 31 (by omega) st.isActive st.cur sid c h.cur_lt hal
  exact ⟨h1, by rw [h2]; exact h.cur_par, h3, h4⟩

/-! ### what is emitted: a predicate on every queued frame -/

/-- `p` holds of every frame in an output list -/
def Out.sendAll (p : Frame → Bool) : Out → Bool
  | .send g => p g
  | _ => true

theorem sendAll_mem (p : Frame → Bool) (l : List Out) (h : ∀ x ∈ l, x.sendAll p = true) (g : Frame) (hg : Out.send g ∈ l) :
    p g = true := h _ hg

def isConnectionLevel : FType → Bool
  | .setup | .lease | .keepalive | .metadataPush | .resume | .resumeOk => true
  | _ => false

/-- the two legality predicates that hold of every frame the engine ever queues -/
def pN (g : Frame) : Bool := !(g.ty == .requestStream || g.ty == .requestChannel) || decide (0 < g.n)
def pZero (g : Frame) : Bool := !isConnectionLevel g.ty || g.sid == 0
def pRecvTypes (g : Frame) : Bool := g.ty == .error || g.ty == .keepalive || g == mkPayload g.sid [] true

theorem frameReceived_preds (st : State) (oid : Nat) (s : Stream) (f : Frame) :
    ∀ x ∈ (frameReceived st oid s f).2, x.sendAll pN = true ∧ x.sendAll pZero = true ∧ x.sendAll pRecvTypes = true := by
  unfold frameReceived
  cases s.kind <;> simp only <;> cases f.ty <;> simp only <;> (repeat' split) <;>
    simp [mkError, Out.sendAll, pN, pZero, pRecvTypes, isConnectionLevel]

theorem handleByType_preds (st : State) (f : Frame) (b : Behaviour) (hd : f.sid = 0 ∨ isInitiate f.ty = true) :
    ∀ x ∈ (handleByType st f b).2, x.sendAll pN = true ∧ x.sendAll pZero = true ∧ x.sendAll pRecvTypes = true := by
  unfold handleByType
  cases hty : f.ty <;> simp only
  case requestResponse =>
    split <;> (try cases b) <;> (try simp only) <;> (repeat' split) <;>
      simp [mkError, Out.sendAll, pN, pZero, pRecvTypes, isConnectionLevel]
  case requestStream =>
    split <;> (try cases b) <;> (try simp only) <;> (repeat' split) <;>
      simp [mkError, Out.sendAll, pN, pZero, pRecvTypes, isConnectionLevel]
  case requestFnf => split <;> (try cases b) <;> simp [mkError, Out.sendAll, pN, pZero, pRecvTypes, isConnectionLevel]
  case requestChannel =>
    split
    · simp [mkError, Out.sendAll, pN, pZero, pRecvTypes, isConnectionLevel]
    · cases b with
      | channel hasPub hasSub =>
        simp only
        split
        · simp [mkError, Out.sendAll, pN, pZero, pRecvTypes, isConnectionLevel]
        · cases hasPub <;> cases hasSub <;> cases f.complete <;>
            simp [mkPayload, Out.sendAll, pN, pZero, pRecvTypes, isConnectionLevel]
      | _ => simp [mkError, Out.sendAll, pN, pZero, pRecvTypes, isConnectionLevel]
  case setup => (repeat' split) <;> simp [mkError, Out.sendAll, pN, pZero, pRecvTypes, isConnectionLevel]
  case metadataPush => cases b <;> simp [mkError, Out.sendAll, pN, pZero, pRecvTypes, isConnectionLevel]
  case keepalive =>
    have h0 : f.sid = 0 := by rcases hd with h | h; exact h; simp [hty, isInitiate] at h
    split <;> simp [Out.sendAll, pN, pZero, pRecvTypes, isConnectionLevel, hty, h0]
  all_goals simp [mkError, Out.sendAll, pN, pZero, pRecvTypes, isConnectionLevel]

theorem recvStep_preds (st : State) (h : WF st) (f : Frame) (b : Behaviour) :
    ∀ x ∈ (recvStep st f b).2, x.sendAll pN = true ∧ x.sendAll pZero = true ∧ x.sendAll pRecvTypes = true := by
  unfold recvStep
  split
  · simp
  · generalize (if isFragmentable f.ty = true then cacheAppend st f else (st, some (Except.ok f))) = r
    rcases r with ⟨st', c⟩
    simp only
    split
    · simp
    · simp [mkError, Out.sendAll, pN, pZero, pRecvTypes, isConnectionLevel]
    · split
      · rename_i hd
        exact handleByType_preds st' _ b (by simpa using hd)
      · split
        · simp [Out.sendAll]
        · split
          · simp [Out.sendAll]
          · exact frameReceived_preds st' _ _ _

theorem apiStep_preds (st : State) (h : Inv08 st) (ev : Ev) :
    ∀ x ∈ (apiStep st ev).2, x.sendAll pN = true ∧ x.sendAll pZero = true := by
  cases ev <;> simp only [apiStep]
  case requestResponse data => rcases allocate st with ⟨o, st1⟩; cases o <;> simp [Out.sendAll, pN, pZero, isConnectionLevel]
  case fireAndForget data => rcases allocate st with ⟨o, st1⟩; cases o <;> simp [Out.sendAll, pN, pZero, isConnectionLevel]
  case requestStream data n sub =>
    rcases allocate st with ⟨o, st1⟩
    cases o <;> simp only <;> (repeat' split) <;> simp [Out.sendAll, pN, pZero, isConnectionLevel] <;> omega
  case requestChannel data n hp sub =>
    rcases allocate st with ⟨o, st1⟩
    cases o <;> simp only <;> (repeat' split) <;> simp [Out.sendAll, pN, pZero, isConnectionLevel] <;> (try omega)
    all_goals (cases hp <;> simp [Out.sendAll, pN, pZero, isConnectionLevel] <;> omega)
  case subscribe oid =>
    split
    · rename_i s ho
      have hn := h.n0 oid s ho
      split
      · simp
      · split
        · rename_i hk
          simp [Out.sendAll, pN, pZero, isConnectionLevel]
          exact hn (Or.inl hk)
        · rename_i hk
          have := hn (Or.inr hk)
          cases s.pubGiven <;> simp [Out.sendAll, pN, pZero, isConnectionLevel] <;> exact this
        · simp
    · simp
  all_goals ((repeat' split) <;> simp [Out.sendAll, pN, pZero, isConnectionLevel, mkRequestN, mkPayload, mkError, mkCancel])

/-- every frame queued by any entry point, in any reachable state, satisfies `p` -/
theorem step_preds (st : State) (hw : WF st) (h : Inv08 st) (ev : Ev) :
    ∀ x ∈ (step st ev).2, x.sendAll pN = true ∧ x.sendAll pZero = true := by
  intro x hx
  have hx := mem_emit _ _ _ hx
  cases ev with
  | recv f b => exact ⟨(recvStep_preds st hw f b x hx).1, (recvStep_preds st hw f b x hx).2.1⟩
  | lost =>
    simp only [lostStep] at hx
    split at hx
    · simp at hx
    · simp only [List.mem_append, List.mem_singleton] at hx
      rcases hx with hx | rfl
      · have := stopAll_targets st.table st x hx
        cases x <;> simp [Out.target] at this <;> simp [Out.sendAll]
      · simp [Out.sendAll]
  | stopStreams =>
    have := stopAll_targets st.table st x hx
    cases x <;> simp [Out.target] at this <;> simp [Out.sendAll]
  | _ => exact apiStep_preds st h _ x hx

end RSocketModel.Engine
