import RSocketModel.Engine.Grammar
/-!
Helper lemmas for C09 (and C08): which entry points can queue a CANCEL frame, the
request-response requester's cancellation callback, and silence over whole runs.
-/
namespace RSocketModel.Engine

theorem cbRRReq_cancelled (st : State) (hc : st.closed = false) (oid : Nat) (s1 : Stream) (h1 : st.obj oid = some s1)
    (hk : s1.kind = .rrReq) (hcb : s1.cb = true) (hf : s1.fut = .cancelled) (hrr : s1.responseReceived = false) :
    step st (.cbRRReq oid) = ((st.setObj oid { s1 with cb := false }).finish s1.sid, [.send (mkCancel s1.sid)]) := by
  simp [step, apiStep, h1, hk, hcb, hf, hrr, State.emit, hc]

theorem cbRRReq_idle (st : State) (oid : Nat) (s1 : Stream) (h1 : st.obj oid = some s1) (hcb : s1.cb = false) :
    step st (.cbRRReq oid) = (st, []) := by
  simp [step, apiStep, h1, hcb, State.emit]

def Out.isCancelSend : Out → Bool
  | .send g => g.ty == .cancel
  | _ => false

theorem frameReceived_no_cancel (st : State) (oid : Nat) (s : Stream) (f : Frame) :
    ∀ x ∈ (frameReceived st oid s f).2, x.isCancelSend = false := by
  unfold frameReceived
  cases s.kind <;> simp only <;> cases f.ty <;> simp only <;> (repeat' split) <;> simp [mkError, Out.isCancelSend]

theorem handleByType_no_cancel (st : State) (f : Frame) (b : Behaviour) :
    ∀ x ∈ (handleByType st f b).2, x.isCancelSend = false := by
  unfold handleByType
  cases hty : f.ty <;> simp only
  case requestResponse => split <;> (try cases b) <;> (try simp only) <;> (repeat' split) <;> simp [mkError, Out.isCancelSend]
  case requestStream => split <;> (try cases b) <;> (try simp only) <;> (repeat' split) <;> simp [mkError, Out.isCancelSend]
  case requestFnf => split <;> (try cases b) <;> simp [mkError, Out.isCancelSend]
  case requestChannel =>
    split
    · simp [mkError, Out.isCancelSend]
    · cases b with
      | channel hasPub hasSub =>
        simp only
        split
        · simp [mkError, Out.isCancelSend]
        · cases hasPub <;> cases hasSub <;> cases f.complete <;> simp [mkPayload, Out.isCancelSend]
      | _ => simp [mkError, Out.isCancelSend]
  case setup => (repeat' split) <;> simp [mkError, Out.isCancelSend]
  case metadataPush => cases b <;> simp [mkError, Out.isCancelSend]
  case keepalive => split <;> simp [Out.isCancelSend, hty]
  all_goals simp [mkError, Out.isCancelSend]

theorem stopAll_targets (l : List (Nat × Nat)) : ∀ st : State, ∀ x ∈ (stopAll st l).2, x.target ≠ none := by
  induction l with
  | nil => intro st x hx; simp [stopAll] at hx
  | cons p rest ih =>
    intro st x hx
    simp only [stopAll, List.mem_append, stopOne_outs] at hx
    rcases hx with hx | hx
    · rw [stopOuts_targets _ _ x hx]; simp
    · exact ih _ x hx

theorem apiStep_no_cancel (st : State) (ev : Ev) (h1 : ∀ oid, ev ≠ .subCancel oid) (h2 : ∀ oid, ev ≠ .cbRRReq oid) :
    ∀ x ∈ (apiStep st ev).2, x.isCancelSend = false := by
  cases ev <;> simp only [apiStep]
  case subCancel oid => exact absurd rfl (h1 oid)
  case cbRRReq oid => exact absurd rfl (h2 oid)
  case requestResponse data => rcases allocate st with ⟨o, st1⟩; cases o <;> simp [Out.isCancelSend]
  case fireAndForget data => rcases allocate st with ⟨o, st1⟩; cases o <;> simp [Out.isCancelSend]
  case requestStream data n sub =>
    rcases allocate st with ⟨o, st1⟩
    cases o <;> simp only <;> (repeat' split) <;> simp [Out.isCancelSend]
  case requestChannel data n hp sub =>
    rcases allocate st with ⟨o, st1⟩
    cases o <;> simp only <;> (repeat' split) <;> simp [Out.isCancelSend]
    all_goals (cases hp <;> simp [Out.isCancelSend])
  all_goals ((repeat' split) <;> simp [Out.isCancelSend, mkRequestN, mkPayload, mkError])

/-- a silent object receives no signal in any continuation of the run -/
theorem silent_run (evs : List Ev) : ∀ (st : State), WF st → ∀ oid, Silent st oid →
    ∀ y ∈ (run st evs).2.flatten, y.target = some oid → y.isSignal = false := by
  induction evs with
  | nil => intro st _ oid _ y hy; simp [run] at hy
  | cons ev es ih =>
    intro st hw oid hs y hy ht
    simp only [run, List.flatten_cons, List.mem_append] at hy
    rcases hy with hy | hy
    · exact silent_no_signal st hw oid hs ev y hy ht
    · exact ih _ (wf_step st hw ev) oid (silent_persists st _ (ext_step st ev) oid hs) y hy ht

end RSocketModel.Engine
