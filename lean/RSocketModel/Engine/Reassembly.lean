import RSocketModel.Engine.Invariants
/-!
Reassembly inside the engine: a fragmentable frame that arrives as fragments (first fragment of
the frame's own type with FOLLOWS, continuation PAYLOAD fragments with FOLLOWS, a last PAYLOAD
fragment without FOLLOWS carrying the COMPLETE flag) has exactly the effect of the whole frame.
-/
namespace RSocketModel.Engine

/-- the fragments of `f` for a split of its payload into `d1 ++ mids.flatten ++ dl` -/
def fragsOf (f : Frame) (d1 : List Nat) (mids : List (List Nat)) (dl : List Nat) : List Frame :=
  { f with follows := true, complete := false, data := d1 } ::
    (mids.map fun d => ({ ty := .payload, sid := f.sid, follows := true, next := true, data := d } : Frame)) ++
    [{ ty := .payload, sid := f.sid, follows := false, complete := f.complete, next := f.next, data := dl }]

theorem filter_ne_of_find_none (c : List (Nat × Frame)) (sid : Nat) (h : c.find? (·.1 == sid) = none) :
    c.filter (·.1 != sid) = c := by
  induction c with
  | nil => rfl
  | cons p r ih =>
    simp only [List.find?_cons] at h
    split at h
    · cases h
    · rename_i hp
      simp only [List.filter_cons]
      have : (p.1 != sid) = true := by simpa [bne] using hp
      simp [this, ih h]

theorem find_filter_append (c : List (Nat × Frame)) (sid : Nat) (m : Frame) :
    (c.filter (·.1 != sid) ++ [(sid, m)]).find? (·.1 == sid) = some (sid, m) := by
  induction c with
  | nil => simp
  | cons p r ih =>
    simp only [List.filter_cons]
    by_cases hp : p.1 = sid
    · simp [hp, ih]
    · have : (p.1 != sid) = true := by simpa [bne] using hp
      simp only [this, if_true, List.cons_append, List.find?_cons]
      have : (p.1 == sid) = false := by simpa using hp
      simp [this, ih]

theorem filter_filter_append (c : List (Nat × Frame)) (sid : Nat) (m : Frame) :
    (c.filter (·.1 != sid) ++ [(sid, m)]).filter (·.1 != sid) = c.filter (·.1 != sid) := by
  simp [List.filter_append, List.filter_filter]

/-- the state with a partial frame `m` cached for stream `sid` -/
def withPartial (st : State) (sid : Nat) (m : Frame) : State :=
  { st with cache := st.cache.filter (·.1 != sid) ++ [(sid, m)] }

/-- what `_handle_next_frame` does with a complete frame -/
def dispatch (st : State) (cf : Frame) (b : Behaviour) : State × List Out :=
  if cf.sid = 0 || isInitiate cf.ty then handleByType st cf b
  else
    match st.oidOf cf.sid with
    | none => (st, [.drop cf.sid])
    | some oid =>
      match st.obj oid with
      | none => (st, [.drop cf.sid])
      | some s => frameReceived st oid s cf

theorem recv_whole (st : State) (hc : st.closed = false) (f : Frame) (b : Behaviour) (hff : f.follows = false)
    (hnone : st.cache.find? (·.1 == f.sid) = none) :
    step st (.recv f b) = dispatch st f b := by
  cases hfr : isFragmentable f.ty
  · simp [step, recvStep, hc, State.emit, hfr, dispatch] <;> rfl
  · simp [step, recvStep, hc, State.emit, hfr, cacheAppend, hnone, hff, dispatch] <;> rfl

theorem recv_first (st : State) (hc : st.closed = false) (f : Frame) (b : Behaviour) (hfr : isFragmentable f.ty = true)
    (hfo : f.follows = true) (hnone : st.cache.find? (·.1 == f.sid) = none) :
    step st (.recv f b) = (withPartial st f.sid f, []) := by
  simp [step, recvStep, hc, State.emit, hfr, cacheAppend, hnone, hfo, withPartial]

theorem withPartial_closed (st : State) (sid : Nat) (m : Frame) : (withPartial st sid m).closed = st.closed := rfl

theorem cacheAppend_partial (st : State) (sid : Nat) (c g : Frame) (hg : g.ty = .payload) (hgs : g.sid = sid) :
    cacheAppend (withPartial st sid c) g =
      if g.follows then
        (withPartial st sid { c with complete := g.complete, next := if c.ty == .payload then g.next else c.next, data := c.data ++ g.data }, none)
      else
        ({ st with cache := st.cache.filter (·.1 != sid) },
          some (.ok { c with complete := g.complete, next := if c.ty == .payload then g.next else c.next, data := c.data ++ g.data })) := by
  subst hgs
  have hfind : (withPartial st g.sid c).cache.find? (·.1 == g.sid) = some (g.sid, c) := find_filter_append _ _ _
  unfold cacheAppend
  rw [hfind]
  simp only [Option.map_some, hg]
  cases g.follows <;> simp [withPartial, filter_filter_append]

theorem recv_middle (st : State) (hc : st.closed = false) (sid : Nat) (c g : Frame) (b : Behaviour)
    (hg : g.ty = .payload) (hgs : g.sid = sid) (hfo : g.follows = true) :
    step (withPartial st sid c) (.recv g b) =
      (withPartial st sid { c with complete := g.complete, next := if c.ty == .payload then g.next else c.next, data := c.data ++ g.data }, []) := by
  have hc' : (withPartial st sid c).closed = false := hc
  simp only [step, recvStep, hc', Bool.false_eq_true, if_false, isFragmentable, hg, if_true, cacheAppend_partial st sid c g hg hgs, hfo,
    State.emit]

theorem recv_last (st : State) (hc : st.closed = false) (sid : Nat) (c g : Frame) (b : Behaviour)
    (hg : g.ty = .payload) (hgs : g.sid = sid) (hfo : g.follows = false) (hnone : st.cache.find? (·.1 == sid) = none) :
    step (withPartial st sid c) (.recv g b) =
      dispatch st { c with complete := g.complete, next := if c.ty == .payload then g.next else c.next, data := c.data ++ g.data } b := by
  have hc' : (withPartial st sid c).closed = false := hc
  have hst : ({ st with cache := st.cache.filter (·.1 != sid) } : State) = st := by
    rw [filter_ne_of_find_none _ _ hnone]
  simp only [step, recvStep, hc', Bool.false_eq_true, if_false, isFragmentable, hg, if_true, cacheAppend_partial st sid c g hg hgs, hfo,
    State.emit, hst, dispatch]
  rfl

/-- no handler reads the FOLLOWS flag of a complete frame (only a KEEPALIVE echo copies the frame) -/
theorem dispatch_follows (st : State) (f : Frame) (b : Behaviour) (hk : isFragmentable f.ty = true) (x : Bool) :
    dispatch st { f with follows := x } b = dispatch st f b := by
  unfold dispatch
  simp only
  split
  · unfold handleByType
    cases hty : f.ty <;> simp [hty, isFragmentable] at hk ⊢
  · split
    · rfl
    · split
      · rfl
      · rename_i oid _ s _
        unfold frameReceived
        cases s.kind <;> simp only <;> cases hty : f.ty <;> simp [hty, isFragmentable] at hk ⊢

def midFrag (sid : Nat) (d : List Nat) : Frame := { ty := .payload, sid := sid, follows := true, next := true, data := d }

theorem run_fragments (st : State) (hc : st.closed = false) (sid : Nat) (b : Behaviour) (last : Frame)
    (hl : last.ty = .payload) (hls : last.sid = sid) (hlf : last.follows = false) (hnone : st.cache.find? (·.1 == sid) = none) :
    ∀ (mids : List (List Nat)) (c : Frame), c.complete = false → (c.ty = .payload → c.next = true) →
      run (withPartial st sid c) (mids.map (fun d => Ev.recv (midFrag sid d) b) ++ [.recv last b]) =
        ((dispatch st { c with complete := last.complete, next := if c.ty == .payload then last.next else c.next,
                               data := c.data ++ mids.flatten ++ last.data } b).1,
         mids.map (fun _ => []) ++
          [(dispatch st { c with complete := last.complete, next := if c.ty == .payload then last.next else c.next,
                                 data := c.data ++ mids.flatten ++ last.data } b).2]) := by
  intro mids
  induction mids with
  | nil =>
    intro c _ _
    simp only [List.map_nil, List.nil_append, run, List.flatten_nil, List.append_nil]
    rw [recv_last st hc sid c last b hl hls hlf hnone]
  | cons d r ih =>
    intro c hcc hcn
    simp only [List.map_cons, List.cons_append, run]
    rw [recv_middle st hc sid c (midFrag sid d) b rfl rfl rfl]
    have hm : ({ c with complete := (midFrag sid d).complete, next := if c.ty == .payload then (midFrag sid d).next else c.next,
                        data := c.data ++ (midFrag sid d).data } : Frame) = { c with data := c.data ++ d } := by
      have : (if c.ty == .payload then true else c.next) = c.next := by
        by_cases h : c.ty = .payload
        · simp [h, hcn h]
        · simp [h]
      simp only [midFrag, this]
      cases c; simp_all
    rw [hm]
    have := ih { c with data := c.data ++ d } hcc hcn
    simp only [List.flatten_cons, List.append_assoc] at this ⊢
    rw [this]

end RSocketModel.Engine
