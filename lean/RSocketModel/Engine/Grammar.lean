import RSocketModel.Engine.Ext
/-!
The subscriber / awaitable signal grammar as a monitor over the outputs addressed to one
application object, and the invariant that ties the monitor's phase to the engine state.
-/
namespace RSocketModel.Engine

/-! ### a silent object stays silent -/

theorem silent_persists (st st' : State) (he : Ext st st') (oid : Nat) (hs : Silent st oid) : Silent st' oid := by
  obtain ⟨s, ho, hc⟩ := hs
  obtain ⟨s', ho', hm⟩ := he.objs oid s ho
  refine ⟨s', ho', ?_⟩
  obtain ⟨hk, _, hr, hf, _⟩ := hm
  rw [hk]
  cases hkk : s.kind <;> simp only [hkk] at hc ⊢
  · exact hf hc
  · intro hin
    rcases he.table oid hin with h | h
    · exact hc h
    · have := obj_lt st oid s ho; omega
  · exact hr hc
  · exact hr hc

/-! ### the grammar -/

inductive Phase where
  | idle      -- no `on_subscribe` yet / awaitable pending
  | active    -- `on_subscribe` delivered, no terminal signal yet
  | done      -- terminal signal delivered / awaitable resolved
deriving DecidableEq, Repr

/-- one signal addressed to the object: `none` is a grammar violation -/
def Phase.feed (p : Phase) : Out → Option Phase
  | .onSubscribe _ => if p = .idle then some .active else none
  | .onNext _ _ c => if p = .active then some (if c then .done else .active) else none
  | .onComplete _ | .onError _ _ => if p = .active then some .done else none
  | .futResult _ _ | .futError _ _ => if p = .idle then some .done else none
  | _ => some p

def monitor (oid : Nat) : Phase → List Out → Option Phase
  | p, [] => some p
  | p, x :: xs =>
    if x.target = some oid then
      match p.feed x with
      | some p' => monitor oid p' xs
      | none => none
    else monitor oid p xs

theorem monitor_append (oid : Nat) (a b : List Out) : ∀ p, monitor oid p (a ++ b) =
    match monitor oid p a with | some p' => monitor oid p' b | none => none := by
  induction a with
  | nil => intro p; rfl
  | cons x xs ih =>
    intro p
    simp only [List.cons_append, monitor]
    split
    · split
      · exact ih _
      · rfl
    · exact ih _

theorem monitor_untargeted (oid : Nat) (l : List Out) (h : ∀ x ∈ l, x.target ≠ some oid) (p : Phase) :
    monitor oid p l = some p := by
  induction l with
  | nil => rfl
  | cons x xs ih =>
    simp only [monitor, h x (by simp), if_false]
    exact ih (fun y hy => h y (by simp [hy]))

theorem monitor_emit (st : State) (oid : Nat) (l : List Out) : ∀ p, monitor oid p (st.emit l) = monitor oid p l := by
  simp only [State.emit]
  split
  · induction l with
    | nil => intro p; rfl
    | cons x xs ih =>
      intro p
      simp only [List.filter_cons]
      cases x <;> simp only [if_true, monitor, Out.target, ih] <;> try rfl
      simp [ih]
  · intro p; rfl

/-- the invariant tying the monitor's phase for an object to the engine state -/
def Rel : Phase → State → Nat → Prop
  | .idle, st, oid => ∀ s, st.obj oid = some s → s.subscribed = false
  | .active, st, oid => ∃ s, st.obj oid = some s ∧ s.subscribed = true ∧ s.kind ≠ .rrReq
  | .done, st, oid => Silent st oid ∧ ∃ s, st.obj oid = some s ∧ (s.subscribed = true ∨ s.kind = .rrReq)

/-- the outputs of an entry point are accepted by the monitor and the resulting phase is again
tied to the resulting state -/
def Good (oid : Nat) (p : Phase) (r : State × List Out) : Prop :=
  match monitor oid p r.2 with
  | some p' => Rel p' r.1 oid
  | none => False

/-! ### building `Silent` -/

theorem silent_rr (st : State) (oid : Nat) (s : Stream) (ho : st.obj oid = some s) (hk : s.kind = .rrReq) (hf : s.fut ≠ .pending) :
    Silent st oid := ⟨s, ho, by simp only [hk]; exact hf⟩

theorem silent_ch (st : State) (oid : Nat) (s : Stream) (ho : st.obj oid = some s) (hk : s.kind = .chReq ∨ s.kind = .chResp)
    (hr : s.recvComplete = true) : Silent st oid := ⟨s, ho, by rcases hk with hk | hk <;> simp only [hk] <;> exact hr⟩

theorem silent_st (st : State) (oid : Nat) (s : Stream) (ho : st.obj oid = some s) (hk : s.kind = .stReq)
    (ht : oid ∉ st.table.map (·.2)) : Silent st oid := ⟨s, ho, by simp only [hk]; exact ht⟩

/-- after `finish_stream` of its stream id, a handler is no longer registered -/
theorem finish_not_mem (st : State) (h : WF st) (oid : Nat) (s : Stream) (ho : st.obj oid = some s) :
    oid ∉ (st.finish s.sid).table.map (·.2) := by
  intro hin
  simp only [State.finish, List.mem_map, List.mem_filter] at hin
  obtain ⟨p, ⟨hp, hne⟩, rfl⟩ := hin
  obtain ⟨s', hs', hsid⟩ := h.table_obj p hp
  rw [ho] at hs'; cases hs'
  simp [hsid] at hne

end RSocketModel.Engine

namespace RSocketModel.Engine

theorem silent_finish_st (st : State) (h : WF st) (oid : Nat) (s : Stream) (ho : st.obj oid = some s) (hk : s.kind = .stReq) :
    Silent (st.finish s.sid) oid :=
  silent_st _ oid s (by rw [finish_obj]; exact ho) hk (finish_not_mem st h oid s ho)

theorem silent_markChannel (st : State) (oid : Nat) (s : Stream) (ho : st.obj oid = some s)
    (hk : s.kind = .chReq ∨ s.kind = .chResp) (t : Bool) : Silent (markChannel st oid s true t) oid :=
  silent_ch _ oid _ (markChannel_obj st oid s ho true t) hk (by simp)

theorem silent_setObj_rr (st : State) (oid sid : Nat) (s s' : Stream) (ho : st.obj oid = some s) (hk : s'.kind = .rrReq)
    (hf : s'.fut ≠ .pending) : Silent ((st.setObj oid s').finish sid) oid :=
  silent_rr _ oid s' (by rw [finish_obj]; exact obj_setObj_self st oid s s' ho) hk hf

theorem silent_setObj_ch (st : State) (oid sid : Nat) (s s' : Stream) (ho : st.obj oid = some s)
    (hk : s'.kind = .chReq ∨ s'.kind = .chResp) (hf : s'.recvComplete = true) : Silent ((st.setObj oid s').finish sid) oid :=
  silent_ch _ oid s' (by rw [finish_obj]; exact obj_setObj_self st oid s s' ho) hk hf

theorem silent_setObj_ch' (st : State) (oid sid : Nat) (s s' : Stream) (ho : st.obj oid = some s)
    (hk : s'.kind = .chReq ∨ s'.kind = .chResp) (hf : s'.recvComplete = true) : Silent ((st.setObj oid s').unregister sid) oid :=
  silent_ch _ oid s' (by rw [unregister_obj]; exact obj_setObj_self st oid s s' ho) hk hf

syntax "silent_close" : tactic
macro_rules
  | `(tactic| silent_close) => `(tactic| first
    | (refine silent_setObj_rr _ _ _ _ _ (by assumption) ?_ ?_ <;> (simp; done))
    | (refine silent_setObj_ch _ _ _ _ _ (by assumption) ?_ ?_ <;> (simp_all; done))
    | (refine silent_setObj_ch' _ _ _ _ _ (by assumption) ?_ ?_ <;> (simp_all; done))
    | exact silent_finish_st _ (by assumption) _ _ (by assumption) (by assumption)
    | exact silent_markChannel _ _ _ (by assumption) (by simp_all) _)

theorem obj_heap_length (st : State) : st.obj st.heap.length = none := by simp [State.obj]

theorem obj_register_ne (st : State) (s : Stream) (j : Nat) (hj : j ≠ st.heap.length) : (st.register s).1.obj j = st.obj j := by
  simp only [State.register, State.obj]
  by_cases hlt : j < st.heap.length
  · rw [List.getElem?_append_left hlt]
  · rw [List.getElem?_eq_none (by simp; omega), List.getElem?_eq_none (by omega)]

theorem obj_markChannel_ne (st : State) (oid : Nat) (s : Stream) (r t : Bool) (j : Nat) (hj : j ≠ oid) :
    (markChannel st oid s r t).obj j = st.obj j := by
  simp only [markChannel]
  split
  · rw [finish_obj]; exact obj_setObj_ne st oid j _ hj
  · exact obj_setObj_ne st oid j _ hj

/-! ### phase `done`: everything follows from `Silent` and monotonicity -/

theorem rel_done_ext (st st' : State) (he : Ext st st') (oid : Nat) (hr : Rel .done st oid) : Rel .done st' oid := by
  obtain ⟨hs, s, ho, hn⟩ := hr
  refine ⟨silent_persists st st' he oid hs, ?_⟩
  obtain ⟨s', ho', hm⟩ := he.objs oid s ho
  refine ⟨s', ho', ?_⟩
  rcases hn with hn | hn
  · exact Or.inl (hm.2.2.2.2.1 hn)
  · exact Or.inr (hm.1.trans hn)

theorem rel_other (st st' : State) (he : Ext st st') (oid : Nat) (ho : st'.obj oid = st.obj oid) (p : Phase) (hr : Rel p st oid) :
    Rel p st' oid := by
  cases p with
  | idle => intro s hs; rw [ho] at hs; exact hr s hs
  | active => obtain ⟨s, hs, h1, h2⟩ := hr; exact ⟨s, by rw [ho]; exact hs, h1, h2⟩
  | done => exact rel_done_ext st st' he oid hr

theorem good_untargeted (oid : Nat) (p : Phase) (r : State × List Out) (ht : ∀ x ∈ r.2, x.target ≠ some oid)
    (hr : Rel p r.1 oid) : Good oid p r := by
  simp only [Good, monitor_untargeted oid r.2 ht p]; exact hr

theorem good_done (st : State) (oid : Nat) (r : State × List Out) (he : Ext st r.1) (hr : Rel .done st oid)
    (hm : monitor oid .done r.2 = some .done) : Good oid .done r := by
  simp only [Good, hm]; exact rel_done_ext st r.1 he oid hr

/-! ### the object a received frame is dispatched to -/

theorem frameReceived_obj_ne (st : State) (oid : Nat) (s : Stream) (f : Frame) (j : Nat) (hj : j ≠ oid) :
    (frameReceived st oid s f).1.obj j = st.obj j := by
  unfold frameReceived
  cases s.kind <;> simp only <;> cases f.ty <;> simp only <;> (repeat' split) <;>
    simp [finish_obj, obj_setObj_ne _ _ _ _ hj, obj_markChannel_ne _ _ _ _ _ _ hj]

theorem frameReceived_good (st : State) (h : WF st) (oid : Nat) (s : Stream) (f : Frame) (ho : st.obj oid = some s)
    (hin : oid ∈ st.table.map (·.2)) (p : Phase) (hr : Rel p st oid) : Good oid p (frameReceived st oid s f) := by
  cases p with
  | idle =>
    have hsub := hr s ho
    unfold frameReceived
    cases hk : s.kind <;> simp only <;> cases f.ty <;> simp only <;> (repeat' split) <;>
      simp_all [Good, monitor, Out.target, Phase.feed, Rel, finish_obj, obj_setObj_self st oid s _ ho, markChannel_obj st oid s ho]
    all_goals silent_close
  | active =>
    obtain ⟨s', ho', hsub, hnr⟩ := hr
    rw [ho] at ho'; cases ho'
    unfold frameReceived
    cases hk : s.kind <;> simp only <;> cases f.ty <;> simp only <;> (repeat' split) <;>
      simp_all [Good, monitor, Out.target, Phase.feed, Rel, finish_obj, obj_setObj_self st oid s _ ho, markChannel_obj st oid s ho]
    all_goals silent_close
  | done =>
    refine good_done st oid _ (ext_frameReceived st oid s ho f) hr ?_
    obtain ⟨hs, s', ho', hn⟩ := hr
    rw [ho] at ho'; cases ho'
    have hc := silent_cond st oid s hs ho hin
    unfold frameReceived
    cases hk : s.kind <;> simp only [hk] at hc ⊢ <;> cases f.ty <;> simp only <;> (repeat' split) <;>
      simp_all [monitor, Out.target, Phase.feed]

/-! ### a request frame creates a fresh object -/

theorem handleByType_obj_ne (st : State) (f : Frame) (b : Behaviour) (j : Nat) (hj : j ≠ st.heap.length) :
    (handleByType st f b).1.obj j = st.obj j := by
  unfold handleByType
  cases f.ty <;> simp only
  case requestResponse => split <;> (try cases b) <;> (try simp only) <;> (repeat' split) <;> simp [obj_register_ne _ _ _ hj]
  case requestStream => split <;> (try cases b) <;> (try simp only) <;> (repeat' split) <;> simp [obj_register_ne _ _ _ hj]
  case requestFnf => split <;> (try cases b) <;> rfl
  case setup => (repeat' split) <;> rfl
  case metadataPush => cases b <;> rfl
  case requestChannel =>
    split
    · rfl
    · cases b with
      | channel hasPub hasSub =>
        simp only
        split
        · rfl
        · have hj' : j ≠ (st.register { kind := .chResp, sid := f.sid, hasPub := hasPub, subscribed := hasSub, setupDone := true }).2 := hj
          cases hasPub <;> cases hasSub <;> cases f.complete <;>
            simp [obj_markChannel_ne _ _ _ _ _ _ hj', obj_register_ne _ _ _ hj]
      | _ => rfl
  all_goals rfl

theorem handleByType_good (st : State) (f : Frame) (b : Behaviour) : Good st.heap.length .idle (handleByType st f b) := by
  have hn := obj_heap_length st
  unfold handleByType
  cases f.ty <;> simp only
  case requestResponse =>
    split <;> (try cases b) <;> (try simp only) <;> (repeat' split) <;>
      simp_all [Good, monitor, Out.target, Phase.feed, Rel, State.register, State.obj]
  case requestStream =>
    split <;> (try cases b) <;> (try simp only) <;> (repeat' split) <;>
      simp_all [Good, monitor, Out.target, Phase.feed, Rel, State.register, State.obj]
  case requestFnf => split <;> (try cases b) <;> simp_all [Good, monitor, Out.target, Phase.feed, Rel]
  case setup => (repeat' split) <;> simp_all [Good, monitor, Out.target, Phase.feed, Rel]
  case metadataPush => cases b <;> simp_all [Good, monitor, Out.target, Phase.feed, Rel]
  case keepalive => split <;> simp_all [Good, monitor, Out.target, Phase.feed, Rel]
  case requestChannel =>
    split
    · simp_all [Good, monitor, Out.target, Phase.feed, Rel]
    · cases b with
      | channel hasPub hasSub =>
        simp only
        split
        · simp_all [Good, monitor, Out.target, Phase.feed, Rel]
        · cases hasPub <;> cases hasSub <;> cases f.complete <;>
            simp [Good, monitor, Out.target, Phase.feed, Rel, State.register, State.obj, markChannel, State.setObj, State.finish, Silent]
      | _ => simp_all [Good, monitor, Out.target, Phase.feed, Rel]
  all_goals simp_all [Good, monitor, Out.target, Phase.feed, Rel]

end RSocketModel.Engine

namespace RSocketModel.Engine

/-! ### local API calls -/

/-- the handler object an API-level event acts on (a fresh one for the request methods) -/
def Ev.focus (st : State) : Ev → Nat
  | .subscribe o | .subRequest o _ | .subCancel o | .futCancel o | .pubNext o _ _ | .pubComplete o | .pubError o
  | .hfResolve o _ | .hfFail o | .cbRRReq o | .cbRRResp o => o
  | _ => st.heap.length

theorem allocate_heap (st : State) : (allocate st).2.heap = st.heap := rfl

theorem apiStep_targets (st : State) (ev : Ev) :
    ∀ x ∈ (apiStep st ev).2, x.target = none ∨ x.target = some (ev.focus st) := by
  cases ev <;> simp only [apiStep, Ev.focus]
  case requestResponse data =>
    have hah := allocate_heap st
    rcases hal : allocate st with ⟨o, st1⟩
    rw [hal] at hah; dsimp only at hah
    cases o <;> simp [Out.target, State.register, hah]
  case fireAndForget data => rcases allocate st with ⟨o, st1⟩; cases o <;> simp [Out.target]
  case requestStream data n sub =>
    have hah := allocate_heap st
    rcases hal : allocate st with ⟨o, st1⟩
    rw [hal] at hah; dsimp only at hah
    cases o <;> simp only <;> (repeat' split) <;> simp [Out.target, State.register, hah]
  case requestChannel data n hp sub =>
    have hah := allocate_heap st
    rcases hal : allocate st with ⟨o, st1⟩
    rw [hal] at hah; dsimp only at hah
    cases o <;> simp only <;> (repeat' split) <;> simp [Out.target, State.register, hah]
    all_goals (cases hp <;> simp [Out.target, hah])
  all_goals ((repeat' split) <;> simp [Out.target])

theorem apiStep_obj_ne (st : State) (ev : Ev) (j : Nat) (hj : j ≠ ev.focus st) : (apiStep st ev).1.obj j = st.obj j := by
  cases ev <;> simp only [Ev.focus] at hj <;> simp only [apiStep]
  case requestResponse data =>
    have hah := allocate_heap st
    rcases hal : allocate st with ⟨o, st1⟩
    rw [hal] at hah; dsimp only at hah
    have hj' : j ≠ st1.heap.length := by rw [hah]; exact hj
    have hb : st1.obj j = st.obj j := by simp [State.obj, hah]
    cases o <;> simp [obj_register_ne _ _ _ hj', hb]
  case fireAndForget data =>
    have hah := allocate_heap st
    rcases hal : allocate st with ⟨o, st1⟩
    rw [hal] at hah; dsimp only at hah
    cases o <;> simp [State.obj, hah]
  case requestStream data n sub =>
    have hah := allocate_heap st
    rcases hal : allocate st with ⟨o, st1⟩
    rw [hal] at hah; dsimp only at hah
    have hj' : j ≠ st1.heap.length := by rw [hah]; exact hj
    have hb : st1.obj j = st.obj j := by simp [State.obj, hah]
    cases o <;> simp only <;> (repeat' split) <;>
      simp [finish_obj, obj_register_ne _ _ _ hj', obj_setObj_ne _ _ _ _ (show j ≠ (st1.register _).2 from hj'), hb]
  case requestChannel data n hp sub =>
    have hah := allocate_heap st
    rcases hal : allocate st with ⟨o, st1⟩
    rw [hal] at hah; dsimp only at hah
    have hj' : j ≠ st1.heap.length := by rw [hah]; exact hj
    have hb : st1.obj j = st.obj j := by simp [State.obj, hah]
    cases o <;> simp only <;> (repeat' split) <;>
      simp [finish_obj, obj_register_ne _ _ _ hj', obj_setObj_ne _ _ _ _ (show j ≠ (st1.register _).2 from hj'),
        obj_markChannel_ne _ _ _ _ _ _ (show j ≠ (st1.register _).2 from hj'), hb]
  all_goals
    (repeat' split) <;> simp [finish_obj, obj_setObj_ne _ _ _ _ hj, obj_markChannel_ne _ _ _ _ _ _ hj]

theorem apiStep_good (st : State) (ev : Ev) (p : Phase) (hr : Rel p st (ev.focus st)) : Good (ev.focus st) p (apiStep st ev) := by
  have hn := obj_heap_length st
  cases p with
  | idle =>
    cases ev <;> simp only [apiStep, Ev.focus] at hr ⊢
    case requestResponse data =>
      have hah := allocate_heap st
      rcases hal : allocate st with ⟨o, st1⟩
      rw [hal] at hah; dsimp only at hah
      cases o <;> simp_all [Good, monitor, Out.target, Phase.feed, Rel, State.register, State.obj]
    case fireAndForget data =>
      have hah := allocate_heap st
      rcases hal : allocate st with ⟨o, st1⟩
      rw [hal] at hah; dsimp only at hah
      cases o <;> simp_all [Good, monitor, Out.target, Phase.feed, Rel, State.register, State.obj]
    case requestStream data n sub =>
      have hah := allocate_heap st
      rcases hal : allocate st with ⟨o, st1⟩
      rw [hal] at hah; dsimp only at hah
      cases o <;> simp only <;> (repeat' split) <;>
        simp_all [Good, monitor, Out.target, Phase.feed, Rel, State.register, State.obj, State.finish, State.setObj]
    case requestChannel data n hp sub =>
      have hah := allocate_heap st
      rcases hal : allocate st with ⟨o, st1⟩
      rw [hal] at hah; dsimp only at hah
      cases o <;> simp only <;> (repeat' split) <;>
        simp_all [Good, monitor, Out.target, Phase.feed, Rel, State.register, State.obj, State.finish, State.setObj, markChannel]
    case subscribe oid =>
      split
      · rename_i s ho
        have hsub := hr s ho
        split
        · simp_all [Good, monitor, Rel]
        · split <;> (repeat' split) <;>
          simp_all [Good, monitor, Out.target, Phase.feed, Rel, obj_setObj_self st oid s _ ho, markChannel_obj]
      · simp_all [Good, monitor, Rel]
    case fnfSent sid => simp_all [Good, monitor, Rel, finish_obj]
    case recv f b => simp_all [Good, monitor, Rel]
    case lost => simp_all [Good, monitor, Rel]
    case stopStreams => simp_all [Good, monitor, Rel]
    case metadataPush => simp_all [Good, monitor, Rel, Out.target]
    all_goals
      split
      · rename_i s ho
        have hsub := hr s ho
        (repeat' split) <;>
          simp_all [Good, monitor, Out.target, Phase.feed, Rel, obj_setObj_self st _ s _ ho, markChannel_obj, finish_obj]
      · simp_all [Good, monitor, Rel]
  | active =>
    obtain ⟨s, ho, hsub, hk⟩ := hr
    cases ev <;> simp only [Ev.focus] at ho <;> (try (rw [hn] at ho; cases ho)) <;> simp only [apiStep, Ev.focus, ho]
    all_goals
      (repeat' split) <;>
        simp_all [Good, monitor, Out.target, Phase.feed, Rel, obj_setObj_self st _ s _ ho, markChannel_obj, finish_obj]
  | done =>
    refine good_done st _ _ (ext_apiStep st ev) hr ?_
    obtain ⟨_, s, ho, hsub⟩ := hr
    cases ev <;> simp only [Ev.focus] at ho <;> (try (rw [hn] at ho; cases ho)) <;> simp only [apiStep, Ev.focus, ho]
    all_goals
      (repeat' split) <;> simp_all [monitor, Out.target, Phase.feed]

/-! ### `stop_all_streams` -/

theorem stopOne_good (st : State) (h : WF st) (sid oid : Nat) (hm : (sid, oid) ∈ st.table) (p : Phase)
    (hr : Rel p st oid) : Good oid p (stopOne st sid oid) := by
  obtain ⟨s, ho, hsid⟩ := h.table_obj _ hm
  simp only at ho hsid
  subst hsid
  cases p with
  | idle =>
    have hsub := hr s ho
    unfold stopOne
    simp only [ho]
    cases hk : s.kind <;> simp only <;> (repeat' split) <;>
      simp_all [Good, monitor, Out.target, Phase.feed, Rel, obj_setObj_self st _ s _ ho, finish_obj, unregister_obj]
    all_goals silent_close
  | active =>
    obtain ⟨s', ho', hsub, hnr⟩ := hr
    rw [ho] at ho'; cases ho'
    unfold stopOne
    simp only [ho]
    cases hk : s.kind <;> simp only <;> (repeat' split) <;>
      simp_all [Good, monitor, Out.target, Phase.feed, Rel, obj_setObj_self st _ s _ ho, finish_obj, unregister_obj]
    all_goals silent_close
  | done =>
    refine good_done st oid _ (ext_stopOne st s.sid oid) hr ?_
    have hc := silent_cond st oid s hr.1 ho (List.mem_map_of_mem hm)
    rw [stopOne_outs, ho]
    unfold stopOuts
    cases hk : s.kind <;> simp only [hk] at hc ⊢ <;> (repeat' split) <;> simp_all [monitor, Out.target, Phase.feed]

theorem good_seq (oid : Nat) (p : Phase) (st1 : State) (o1 : List Out) (r2 : State × List Out)
    (h1 : Good oid p (st1, o1)) (h2 : ∀ p1, Rel p1 st1 oid → Good oid p1 r2) : Good oid p (r2.1, o1 ++ r2.2) := by
  simp only [Good, monitor_append] at h1 ⊢
  cases hm : monitor oid p o1 with
  | none => simp [hm] at h1
  | some p1 =>
    simp only [hm] at h1 ⊢
    exact h2 p1 h1

theorem stopAll_good (oid : Nat) (l : List (Nat × Nat)) : ∀ (st : State), WF st → (∀ q ∈ l, q ∈ st.table) →
    (l.map (·.1)).Nodup → ∀ p, Rel p st oid → Good oid p (stopAll st l) := by
  induction l with
  | nil => intro st _ _ _ p hr; simpa [stopAll, Good, monitor] using hr
  | cons q rest ih =>
    intro st h hmem hnd p hr
    obtain ⟨sid, o⟩ := q
    simp only [stopAll]
    simp only [List.map_cons, List.nodup_cons] at hnd
    have hq := hmem (sid, o) (by simp)
    have hw := wf_stopOne st h sid o hq
    have hrest : ∀ q ∈ rest, q ∈ (stopOne st sid o).1.table := by
      intro q hq'
      have hqt := hmem q (by simp [hq'])
      have hne : q.1 ≠ sid := by
        intro e; apply hnd.1; rw [← e]; exact List.mem_map_of_mem hq'
      rw [stopOne_table, List.mem_filter]
      exact ⟨hqt, by simpa using hne⟩
    have h1 : Good oid p (stopOne st sid o) := by
      by_cases ho : o = oid
      · subst ho; exact stopOne_good st h sid o hq p hr
      · refine good_untargeted oid p _ ?_ (rel_other st _ (ext_stopOne st sid o) oid (stopOne_obj_ne st sid o oid (Ne.symm ho)) p hr)
        intro x hx
        rw [stopOne_outs] at hx
        rw [stopOuts_targets _ _ x hx]
        simpa using ho
    exact good_seq oid p _ _ (stopAll (stopOne st sid o).1 rest) h1 (fun p1 hr1 => ih _ hw hrest hnd.2 p1 hr1)

end RSocketModel.Engine

namespace RSocketModel.Engine

/-! ### every entry point -/

theorem rel_same (st st' : State) (h1 : st'.heap = st.heap) (h2 : st'.table = st.table) (oid : Nat) (p : Phase)
    (hr : Rel p st oid) : Rel p st' oid := by
  have ho : st'.obj oid = st.obj oid := by simp only [State.obj, h1]
  cases p with
  | idle => intro s hs; rw [ho] at hs; exact hr s hs
  | active => obtain ⟨s, hs, h3, h4⟩ := hr; exact ⟨s, by rw [ho]; exact hs, h3, h4⟩
  | done =>
    obtain ⟨⟨s, hs, hc⟩, s2, hs2, h3⟩ := hr
    exact ⟨⟨s, by rw [ho]; exact hs, by rw [h2]; exact hc⟩, s2, by rw [ho]; exact hs2, h3⟩

theorem good_focused (st : State) (r : State × List Out) (a : Nat) (he : Ext st r.1)
    (hobj : ∀ j, j ≠ a → r.1.obj j = st.obj j) (htg : ∀ x ∈ r.2, x.target = none ∨ x.target = some a)
    (hgood : ∀ p, Rel p st a → Good a p r) (oid : Nat) (p : Phase) (hr : Rel p st oid) : Good oid p r := by
  by_cases ho : oid = a
  · subst ho; exact hgood p hr
  · refine good_untargeted oid p r ?_ (rel_other st r.1 he oid (hobj oid ho) p hr)
    intro x hx
    rcases htg x hx with h | h <;> rw [h]
    · simp
    · simpa using Ne.symm ho

theorem recvStep_good (st : State) (h : WF st) (f : Frame) (b : Behaviour) (oid : Nat) (p : Phase) (hr : Rel p st oid) :
    Good oid p (recvStep st f b) := by
  unfold recvStep
  split
  · exact good_untargeted oid p _ (by simp) hr
  · have hspec := cacheAppend_spec st h f
    generalize hgen : (if isFragmentable f.ty = true then cacheAppend st f else (st, some (Except.ok f))) = r
    have hheap : r.1.heap = st.heap ∧ r.1.table = st.table := by
      rw [← hgen]; split
      · exact ⟨hspec.2.2.2.1, hspec.2.2.1⟩
      · exact ⟨rfl, rfl⟩
    have hw : WF r.1 := by
      rw [← hgen]; split
      · exact hspec.1
      · exact h
    rcases r with ⟨st', c⟩
    simp only at hheap hw ⊢
    have hr' : Rel p st' oid := rel_same st st' hheap.1 hheap.2 oid p hr
    split
    · exact good_untargeted oid p _ (by simp) hr'
    · exact good_untargeted oid p _ (by simp [Out.target]) hr'
    · split
      · refine good_focused st' _ st'.heap.length (ext_handleByType st' _ b) (handleByType_obj_ne st' _ b)
          (handleByType_targets st' _ b) ?_ oid p hr'
        intro p1 hr1
        cases p1 with
        | idle => exact handleByType_good st' _ b
        | active => obtain ⟨s, hs, _⟩ := hr1; rw [obj_heap_length] at hs; cases hs
        | done => obtain ⟨_, s, hs, _⟩ := hr1; rw [obj_heap_length] at hs; cases hs
      · split
        · exact good_untargeted oid p _ (by simp [Out.target]) hr'
        · split
          · exact good_untargeted oid p _ (by simp [Out.target]) hr'
          · rename_i _ oid' hoid' _ s' hs'
            refine good_focused st' _ oid' (ext_frameReceived st' oid' s' hs' _) (frameReceived_obj_ne st' oid' s' _)
              (frameReceived_targets st' oid' s' _) ?_ oid p hr'
            intro p1 hr1
            exact frameReceived_good st' hw oid' s' _ hs' (List.mem_map_of_mem (oidOf_mem st' _ oid' hoid')) p1 hr1

theorem good_emit (st0 : State) (oid : Nat) (p : Phase) (r : State × List Out) (h : Good oid p r) :
    Good oid p (r.1, st0.emit r.2) := by
  simp only [Good, monitor_emit] at h ⊢; exact h

/-- **one step**: whatever the entry point, the signals it delivers to an object continue that
object's grammar, and the phase reached is again tied to the state reached -/
theorem step_good (st : State) (h : WF st) (ev : Ev) (oid : Nat) (p : Phase) (hr : Rel p st oid) :
    Good oid p (step st ev) := by
  unfold step
  apply good_emit
  cases ev
  case recv f b => exact recvStep_good st h f b oid p hr
  case lost =>
    simp only [lostStep]
    split
    · exact good_untargeted oid p _ (by simp) hr
    · have hg := stopAll_good oid st.table st h (fun _ hq => hq) h.sids_nodup p hr
      have := good_seq oid p (stopAll st st.table).1 (stopAll st st.table).2
        ({ (stopAll st st.table).1 with closed := true }, [Out.onClose]) (by
          simp only [Good, List.append_nil] at hg ⊢
          exact hg) (fun p1 hr1 => good_untargeted oid p1 _ (by simp [Out.target]) (rel_same (stopAll st st.table).1 { (stopAll st st.table).1 with closed := true } rfl rfl oid p1 hr1))
      simpa [Good, monitor_append] using this
  case stopStreams => exact stopAll_good oid st.table st h (fun _ hq => hq) h.sids_nodup p hr
  all_goals
    exact good_focused st _ _ (ext_apiStep st _) (apiStep_obj_ne st _) (apiStep_targets st _)
      (fun p1 hr1 => apiStep_good st _ p1 hr1) oid p hr

/-- **every run**: the concatenated outputs of any event sequence are accepted by the monitor of
every object -/
theorem run_good (evs : List Ev) : ∀ (st : State), WF st → ∀ oid p, Rel p st oid →
    ∃ p', monitor oid p (run st evs).2.flatten = some p' ∧ Rel p' (run st evs).1 oid := by
  induction evs with
  | nil => intro st _ oid p hr; exact ⟨p, rfl, hr⟩
  | cons ev es ih =>
    intro st h oid p hr
    have hg := step_good st h ev oid p hr
    simp only [Good] at hg
    cases hm : monitor oid p (step st ev).2 with
    | none => simp [hm] at hg
    | some p1 =>
      simp only [hm] at hg
      obtain ⟨p', hp', hr'⟩ := ih _ (wf_step st h ev) oid p1 hg
      refine ⟨p', ?_, hr'⟩
      simp only [run, List.flatten_cons, monitor_append, hm]
      exact hp'

end RSocketModel.Engine

namespace RSocketModel.Engine

/-! ### reading the monitor: helper lemmas for the corollaries in `Props/C07` -/

theorem feed_terminal (p q : Phase) (x : Out) (ht : x.isTerminal = true) (h : p.feed x = some q) : q = .done ∧ p ≠ .done := by
  cases x <;> simp [Out.isTerminal] at ht <;> cases p <;> simp [Phase.feed] at h <;> simp_all
  all_goals (subst_vars; first | simp | (split <;> simp))

theorem feed_not_active (p p' : Phase) (x : Out) (hp : p ≠ .active) (hx : ∀ o, x ≠ .onSubscribe o) (hf : p.feed x = some p') :
    p' ≠ .active := by
  cases x <;> cases p <;> simp_all [Phase.feed]
  all_goals (subst_vars; first | simp | (split <;> simp))

theorem feed_not_idle (p p' : Phase) (x : Out) (hp : p ≠ .idle) (hf : p.feed x = some p') : p' ≠ .idle := by
  cases x <;> cases p <;> simp_all [Phase.feed]
  all_goals (subst_vars; first | simp | (split <;> simp))

theorem monitor_not_idle (oid : Nat) (l : List Out) : ∀ (p : Phase), p ≠ .idle → monitor oid p l ≠ some .idle := by
  induction l with
  | nil => intro p hp h; simp only [monitor, Option.some.injEq] at h; exact hp h
  | cons y ys ih =>
    intro p hp h
    simp only [monitor] at h
    split at h
    · split at h
      · rename_i p' hf
        exact ih p' (feed_not_idle p p' y hp hf) h
      · cases h
    · exact ih p hp h

theorem feed_done (q : Phase) (x : Out) (h : Phase.feed .done x = some q) :
    q = .done ∧ x.isSignal = false ∧ (∀ o, x ≠ .onSubscribe o) := by
  cases x <;> simp_all [Phase.feed, Out.isSignal]

theorem monitor_done (oid : Nat) (l : List Out) (q : Phase) (h : monitor oid .done l = some q) :
    ∀ y ∈ l, y.target = some oid → y.isSignal = false ∧ y ≠ .onSubscribe oid := by
  induction l with
  | nil => intro y hy; simp at hy
  | cons x xs ih =>
    intro y hy ht
    simp only [monitor] at h
    split at h
    · split at h
      · rename_i p' hf
        obtain ⟨rfl, h1, h2⟩ := feed_done p' x hf
        simp only [List.mem_cons] at hy
        rcases hy with rfl | hy
        · exact ⟨h1, h2 oid⟩
        · exact ih h y hy ht
      · cases h
    · rename_i hx
      simp only [List.mem_cons] at hy
      rcases hy with rfl | hy
      · exact absurd ht hx
      · exact ih h y hy ht

theorem monitor_split (oid : Nat) (a : List Out) (x : Out) (b : List Out) (p q : Phase)
    (h : monitor oid p (a ++ x :: b) = some q) (ht : x.target = some oid) :
    ∃ p1 p2, monitor oid p a = some p1 ∧ p1.feed x = some p2 ∧ monitor oid p2 b = some q := by
  rw [monitor_append] at h
  cases h1 : monitor oid p a with
  | none => simp [h1] at h
  | some p1 =>
    simp only [h1, monitor, ht, if_true] at h
    cases h2 : p1.feed x with
    | none => simp [h2] at h
    | some p2 => simp only [h2] at h; exact ⟨p1, p2, rfl, h2, h⟩

/-- the monitor reaches `active` only through `on_subscribe` -/
theorem monitor_active (oid : Nat) (l : List Out) : ∀ p, p ≠ .active → monitor oid p l = some .active →
    .onSubscribe oid ∈ l := by
  induction l with
  | nil => intro p hp h; simp only [monitor, Option.some.injEq] at h; exact absurd h hp
  | cons x xs ih =>
    intro p hp h
    simp only [monitor] at h
    split at h
    · rename_i ht
      split at h
      · rename_i p' hf
        by_cases hx : x = .onSubscribe oid
        · simp [hx]
        · have hx' : ∀ o, x ≠ .onSubscribe o := by
            intro o e; subst e
            simp only [Out.target, Option.some.injEq] at ht
            subst ht; exact hx rfl
          exact List.mem_cons_of_mem _ (ih p' (feed_not_active p p' x hp hx' hf) h)
      · cases h
    · exact List.mem_cons_of_mem _ (ih p hp h)

end RSocketModel.Engine
