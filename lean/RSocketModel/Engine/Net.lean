import RSocketModel.Engine.Step
/-!
Two endpoints and the link between them. `A` is the client (odd stream ids), `B` the server; each is
the engine model of `Engine/Step.lean`. The link is one FIFO of whole frames per direction: that
the sender task, the fragmenter, the byte stream in any chunking, the parser and the reassembly
cache together behave like such a FIFO *per stream* is `c01_pipeline` / `c01_end_to_end_bytes`
(and C05 for the order); frames of different streams may be reordered by the sender task, which a
single FIFO does not show — the theorems below are per stream, so they do not depend on the order
between streams.

Any interleaving of local entry points on either side (API calls, publisher signals, done-callbacks,
connection loss) with deliveries of the oldest frame in flight is a run of this model.
-/
namespace RSocketModel.Engine

/-- the frames queued by one entry point, in queueing order -/
def sends (outs : List Out) : List Frame :=
  outs.filterMap (fun o => match o with | .send f => some f | _ => none)

/-- endpoints are named by a Boolean: `true` = A (client, odd ids), `false` = B (server) -/
structure Net where
  st : Bool → State
  q : Bool → List Frame      -- `q x`: frames queued by endpoint `x`, not yet processed by its peer (oldest first)

def upd {α : Type} (f : Bool → α) (x : Bool) (v : α) : Bool → α := fun y => if y = x then v else f y

def Net.init (lpA lpB : Bool := false) : Net :=
  { st := fun x => if x then Engine.init 1 lpA else Engine.init 2 lpB, q := fun _ => [] }

inductive NEv where
  | loc (x : Bool) (ev : Ev)           -- a local entry point on endpoint `x` (never `recv`: frames come from the peer only)
  | dlv (x : Bool) (beh : Behaviour)   -- endpoint `x` processes the oldest frame in flight from its peer
deriving Repr, DecidableEq

/-- what one step of the pair did: which endpoint ran, the frame it processed (if any), its outputs -/
structure NOut where
  side : Bool
  fed : Option Frame
  outs : List Out
deriving Repr, DecidableEq

def Ev.isRecv : Ev → Bool
  | .recv _ _ => true
  | _ => false

def Net.step (n : Net) : NEv → Net × NOut
  | .loc x ev =>
    if ev.isRecv then (n, ⟨x, none, []⟩) else
    let r := Engine.step (n.st x) ev
    ({ st := upd n.st x r.1, q := upd n.q x (n.q x ++ sends r.2) }, ⟨x, none, r.2⟩)
  | .dlv x beh =>
    match n.q (!x) with
    | [] => (n, ⟨x, none, []⟩)
    | f :: rest =>
      let r := Engine.step (n.st x) (.recv f beh)
      ({ st := upd n.st x r.1, q := upd (upd n.q (!x) rest) x (n.q x ++ sends r.2) }, ⟨x, some f, r.2⟩)

def Net.run (n : Net) : List NEv → Net × List NOut
  | [] => (n, [])
  | ev :: evs =>
    let r := n.step ev
    let r' := Net.run r.1 evs
    (r'.1, r.2 :: r'.2)

/-! ### what the application handed in, what the application was handed -/

/-- frame types that carry an application payload -/
def carriesPayload : FType → Bool
  | .payload | .requestResponse | .requestFnf | .requestStream | .requestChannel | .metadataPush | .setup => true
  | _ => false

/-- the non-empty application payload a queued frame carries on stream `s` -/
def Frame.payloadOn (s : Nat) (g : Frame) : Option (List Nat) :=
  if g.sid = s ∧ carriesPayload g.ty = true ∧ g.data ≠ [] then some g.data else none

/-- a non-empty payload handed to the application: a stream element, a response, a request -/
def Out.deliveredData : Out → Option (List Nat)
  | .onNext _ d _ => if d ≠ [] then some d else none
  | .futResult _ d => if d ≠ [] then some d else none
  | .handlerCall _ d => if d ≠ [] then some d else none
  | _ => none

/-- payloads the endpoint `side` queued on stream `s` over a trace, in queueing order -/
def producedAt (side : Bool) (s : Nat) (tr : List NOut) : List (List Nat) :=
  tr.flatMap (fun e => if e.side = side then (sends e.outs).filterMap (Frame.payloadOn s) else [])

/-- payloads handed to the application of endpoint `side` for stream `s` over a trace, in order.
A delivery made by a step that processed no frame would count for every stream. -/
def deliveredAt (side : Bool) (s : Nat) (tr : List NOut) : List (List Nat) :=
  tr.flatMap (fun e =>
    if e.side = side then
      match e.fed with
      | some f => if f.sid = s then e.outs.filterMap Out.deliveredData else []
      | none => e.outs.filterMap Out.deliveredData
    else [])

end RSocketModel.Engine
