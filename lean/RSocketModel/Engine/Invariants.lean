import RSocketModel.Engine.Step
/-!
Well-formedness of engine states and its preservation by every entry point.
-/
namespace RSocketModel.Engine

/-- every table entry points to an existing handler object that carries that stream id; stream ids
are registered at most once; object ids of table entries are distinct; cached partial frames carry
the stream id they are filed under -/
structure WF (st : State) : Prop where
  table_obj : ∀ p ∈ st.table, ∃ s, st.obj p.2 = some s ∧ s.sid = p.1
  sids_nodup : (st.table.map (·.1)).Nodup
  oids_nodup : (st.table.map (·.2)).Nodup
  cache_sid : ∀ p ∈ st.cache, p.2.sid = p.1
  /-- no registered handler has both directions marked complete (a channel whose two directions
  are closed is unregistered in the same step) -/
  chan_open : ∀ p ∈ st.table, ∀ s, st.obj p.2 = some s → ¬ (s.sentComplete = true ∧ s.recvComplete = true)

theorem wf_init (first : Nat) (lp : Bool) : WF (init first lp) :=
  ⟨by simp [init], by simp [init], by simp [init], by simp [init], by simp [init]⟩

/-! ### primitives -/

theorem obj_setObj_same (st : State) (oid : Nat) (s : Stream) (h : oid < st.heap.length) :
    (st.setObj oid s).obj oid = some s := by
  simp [State.setObj, State.obj, h]

theorem obj_setObj_ne (st : State) (oid j : Nat) (s : Stream) (h : j ≠ oid) :
    (st.setObj oid s).obj j = st.obj j := by
  simp [State.setObj, State.obj, List.getElem?_set, Ne.symm h]

theorem obj_lt (st : State) (oid : Nat) (s : Stream) (h : st.obj oid = some s) : oid < st.heap.length := by
  simp only [State.obj] at h
  exact (List.getElem?_eq_some_iff.mp h).1

theorem finish_heap (st : State) (sid : Nat) : (st.finish sid).heap = st.heap := rfl
theorem finish_obj (st : State) (sid oid : Nat) : (st.finish sid).obj oid = st.obj oid := rfl

theorem wf_setObj (st : State) (h : WF st) (oid : Nat) (s s' : Stream) (ho : st.obj oid = some s) (hs : s'.sid = s.sid)
    (hf : s'.sentComplete = s.sentComplete ∧ s'.recvComplete = s.recvComplete) :
    WF (st.setObj oid s') := by
  refine ⟨?_, h.sids_nodup, h.oids_nodup, h.cache_sid, ?_⟩
  · intro p hp
    obtain ⟨x, hx, hxs⟩ := h.table_obj p hp
    by_cases hj : p.2 = oid
    · refine ⟨s', ?_, ?_⟩
      · rw [hj]; exact obj_setObj_same st oid s' (obj_lt st oid s ho)
      · rw [hj] at hx; rw [ho] at hx; cases hx; rw [hs, hxs]
    · exact ⟨x, by rw [obj_setObj_ne st oid p.2 s' hj]; exact hx, hxs⟩
  · intro p hp x hx
    by_cases hj : p.2 = oid
    · rw [hj, obj_setObj_same st oid s' (obj_lt st oid s ho)] at hx
      cases hx
      rw [hf.1, hf.2]
      exact h.chan_open p hp s (by rw [hj]; exact ho)
    · rw [obj_setObj_ne st oid p.2 s' hj] at hx
      exact h.chan_open p hp x hx

/-- an object updated and its stream unregistered in the same step: any update is fine -/
theorem wf_setObj_finish (st : State) (h : WF st) (oid : Nat) (s s' : Stream) (ho : st.obj oid = some s) (hs : s'.sid = s.sid) :
    WF ((st.setObj oid s').finish s.sid) := by
  have hne : ∀ p ∈ st.table, p.1 ≠ s.sid → p.2 ≠ oid := by
    intro p hp hk e
    obtain ⟨x, hx, hxs⟩ := h.table_obj p hp
    rw [e, ho] at hx; cases hx; exact hk hxs.symm
  refine ⟨?_, ?_, ?_, ?_, ?_⟩
  · intro p hp
    simp only [State.finish, State.setObj, List.mem_filter, bne_iff_ne] at hp
    obtain ⟨x, hx, hxs⟩ := h.table_obj p hp.1
    exact ⟨x, by rw [finish_obj, obj_setObj_ne st oid p.2 s' (hne p hp.1 hp.2)]; exact hx, hxs⟩
  · exact List.Nodup.sublist (List.Sublist.map _ List.filter_sublist) h.sids_nodup
  · exact List.Nodup.sublist (List.Sublist.map _ List.filter_sublist) h.oids_nodup
  · intro p hp
    simp only [State.finish, State.setObj, List.mem_filter] at hp
    exact h.cache_sid p hp.1
  · intro p hp x hx
    simp only [State.finish, State.setObj, List.mem_filter, bne_iff_ne] at hp
    rw [finish_obj, obj_setObj_ne st oid p.2 s' (hne p hp.1 hp.2)] at hx
    exact h.chan_open p hp.1 x hx

theorem wf_finish (st : State) (h : WF st) (sid : Nat) : WF (st.finish sid) := by
  refine ⟨?_, ?_, ?_, ?_, ?_⟩
  · intro p hp
    simp only [State.finish, List.mem_filter] at hp
    exact h.table_obj p hp.1
  · simp only [State.finish]
    exact List.Nodup.sublist (List.Sublist.map _ List.filter_sublist) h.sids_nodup
  · simp only [State.finish]
    exact List.Nodup.sublist (List.Sublist.map _ List.filter_sublist) h.oids_nodup
  · intro p hp
    simp only [State.finish, List.mem_filter] at hp
    exact h.cache_sid p hp.1
  · intro p hp x hx
    simp only [State.finish, List.mem_filter] at hp
    exact h.chan_open p hp.1 x hx


theorem unregister_obj (st : State) (sid oid : Nat) : (st.unregister sid).obj oid = st.obj oid := rfl

/-- the state with the cache of another state: `WF` looks at the cache only through `cache_sid` -/
theorem wf_unregister_of_finish (st : State) (sid : Nat) (h : WF st) (hf : WF (st.finish sid)) : WF (st.unregister sid) :=
  ⟨hf.table_obj, hf.sids_nodup, hf.oids_nodup, h.cache_sid, hf.chan_open⟩

theorem wf_unregister (st : State) (h : WF st) (sid : Nat) : WF (st.unregister sid) :=
  wf_unregister_of_finish st sid h (wf_finish st h sid)

theorem wf_setObj_unregister (st : State) (h : WF st) (oid : Nat) (s s' : Stream) (ho : st.obj oid = some s) (hs : s'.sid = s.sid) :
    WF ((st.setObj oid s').unregister s.sid) := by
  have hf := wf_setObj_finish st h oid s s' ho hs
  exact ⟨hf.table_obj, hf.sids_nodup, hf.oids_nodup, h.cache_sid, hf.chan_open⟩

theorem wf_register (st : State) (h : WF st) (s : Stream) (hn : ¬ (s.sentComplete = true ∧ s.recvComplete = true)) :
    WF (st.register s).1 := by
  have hoids : ∀ p ∈ st.table, p.2 < st.heap.length := by
    intro p hp
    obtain ⟨x, hx, _⟩ := h.table_obj p hp
    exact obj_lt st p.2 x hx
  refine ⟨?_, ?_, ?_, h.cache_sid, ?_⟩
  · intro p hp
    simp only [State.register, List.mem_append, List.mem_filter, List.mem_singleton] at hp
    rcases hp with ⟨hp, _⟩ | rfl
    · obtain ⟨x, hx, hxs⟩ := h.table_obj p hp
      refine ⟨x, ?_, hxs⟩
      simp only [State.register, State.obj] at hx ⊢
      rw [List.getElem?_append_left (hoids p hp)]
      exact hx
    · exact ⟨s, by simp [State.register, State.obj], rfl⟩
  rotate_left 2
  · intro p hp x hx
    simp only [State.register, List.mem_append, List.mem_filter, List.mem_singleton] at hp
    rcases hp with ⟨hp, _⟩ | rfl
    · have hlt := hoids p hp
      simp only [State.register, State.obj] at hx
      rw [List.getElem?_append_left hlt] at hx
      exact h.chan_open p hp x hx
    · simp only [State.register, State.obj, List.getElem?_append_right (Nat.le_refl _), Nat.sub_self, List.getElem?_cons_zero,
        Option.some.injEq] at hx
      rw [← hx]; exact hn
  · simp only [State.register, List.map_append, List.map_cons, List.map_nil]
    rw [List.nodup_append]
    refine ⟨List.Nodup.sublist (List.Sublist.map _ List.filter_sublist) h.sids_nodup, by simp, ?_⟩
    intro a ha b hb
    simp only [List.mem_map, List.mem_filter] at ha
    obtain ⟨p, ⟨_, hp⟩, rfl⟩ := ha
    simp only [List.mem_singleton] at hb
    subst hb
    simpa using hp
  · simp only [State.register, List.map_append, List.map_cons, List.map_nil]
    rw [List.nodup_append]
    refine ⟨List.Nodup.sublist (List.Sublist.map _ List.filter_sublist) h.oids_nodup, by simp, ?_⟩
    intro a ha b hb
    simp only [List.mem_map, List.mem_filter] at ha
    obtain ⟨p, ⟨hp, _⟩, rfl⟩ := ha
    simp only [List.mem_singleton] at hb
    subst hb
    have := hoids p hp
    omega

theorem wf_markChannel (st : State) (h : WF st) (oid : Nat) (s : Stream) (ho : st.obj oid = some s) (r t : Bool) :
    WF (markChannel st oid s r t) := by
  simp only [markChannel]
  by_cases hb : ((s.recvComplete || r) && (s.sentComplete || t)) = true
  · rw [if_pos hb]
    exact wf_setObj_finish st h oid s _ ho rfl
  · rw [if_neg hb]
    -- not both complete: the updated object keeps the invariant
    refine ⟨?_, h.sids_nodup, h.oids_nodup, h.cache_sid, ?_⟩
    · intro p hp
      obtain ⟨x, hx, hxs⟩ := h.table_obj p hp
      by_cases hj : p.2 = oid
      · refine ⟨_, by rw [hj]; exact obj_setObj_same st oid _ (obj_lt st oid s ho), ?_⟩
        rw [hj] at hx; rw [ho] at hx; cases hx; exact hxs
      · exact ⟨x, by rw [obj_setObj_ne st oid p.2 _ hj]; exact hx, hxs⟩
    · intro p hp x hx
      by_cases hj : p.2 = oid
      · rw [hj, obj_setObj_same st oid _ (obj_lt st oid s ho)] at hx
        cases hx
        simp only
        intro hboth
        apply hb
        simp [hboth.1, hboth.2]
      · rw [obj_setObj_ne st oid p.2 _ hj] at hx
        exact h.chan_open p hp x hx

theorem wf_closed (st : State) (h : WF st) (b : Bool) : WF { st with closed := b } :=
  ⟨h.table_obj, h.sids_nodup, h.oids_nodup, h.cache_sid, h.chan_open⟩

theorem wf_cur (st : State) (h : WF st) (c : Nat) : WF { st with cur := c } :=
  ⟨h.table_obj, h.sids_nodup, h.oids_nodup, h.cache_sid, h.chan_open⟩

end RSocketModel.Engine

namespace RSocketModel.Engine

theorem obj_register (st : State) (s : Stream) : (st.register s).1.obj (st.register s).2 = some s := by
  simp [State.register, State.obj]

theorem obj_register_old (st : State) (s : Stream) (oid : Nat) (x : Stream) (h : st.obj oid = some x) :
    (st.register s).1.obj oid = some x := by
  have := obj_lt st oid x h
  simp only [State.register, State.obj] at h ⊢
  rw [List.getElem?_append_left this]; exact h

theorem oidOf_mem (st : State) (sid oid : Nat) (h : st.oidOf sid = some oid) : (sid, oid) ∈ st.table := by
  unfold State.oidOf at h
  cases hf : st.table.find? (·.1 == sid) with
  | none => simp [hf] at h
  | some p =>
    simp only [hf, Option.map_some, Option.some.injEq] at h
    have hm := List.mem_of_find?_eq_some hf
    have hp := List.find?_some hf
    simp only [beq_iff_eq] at hp
    rw [← h, ← hp]; exact hm

theorem oidOf_obj (st : State) (h : WF st) (sid oid : Nat) (ho : st.oidOf sid = some oid) :
    ∃ s, st.obj oid = some s ∧ s.sid = sid :=
  h.table_obj (sid, oid) (oidOf_mem st sid oid ho)

theorem obj_setObj_self (st : State) (oid : Nat) (s s' : Stream) (ho : st.obj oid = some s) :
    (st.setObj oid s').obj oid = some s' := obj_setObj_same st oid s' (obj_lt st oid s ho)

/-- closes `WF` goals built from the primitive state updates -/
syntax "wf_close" : tactic
syntax "wf_close1" : tactic
macro_rules
  | `(tactic| wf_close) => `(tactic| (try dsimp only) <;> wf_close1)
macro_rules
  | `(tactic| wf_close1) => `(tactic| first
    | assumption
    | exact wf_setObj_finish _ (by wf_close) _ _ _ (by first | assumption | exact obj_register _ _) (by rfl)
    | exact wf_finish _ (by wf_close) _
    | exact wf_setObj_unregister _ (by wf_close) _ _ _ (by first | assumption | exact obj_register _ _) (by rfl)
    | exact wf_unregister _ (by wf_close) _
    | exact wf_markChannel _ (by wf_close) _ _ (by first | assumption | exact obj_setObj_self _ _ _ _ (by first | assumption | exact obj_register _ _) | exact obj_register _ _) _ _
    | exact wf_setObj _ (by wf_close) _ _ _ (by first | assumption | exact obj_register _ _) (by rfl) (by simp)
    | exact wf_register _ (by wf_close) _ (by simp)
    | exact wf_closed _ (by wf_close) _
    | exact wf_cur _ (by wf_close) _)

theorem wf_allocate (st : State) (h : WF st) : WF (allocate st).2 := by
  unfold allocate; exact wf_cur st h _

theorem wf_apiStep (st : State) (h : WF st) (ev : Ev) : WF (apiStep st ev).1 := by
  cases ev with
  | requestResponse data =>
    simp only [apiStep]
    have ha := wf_allocate st h
    rcases hal : allocate st with ⟨o, st1⟩
    rw [hal] at ha
    dsimp only at ha
    cases o with
    | none => exact ha
    | some sid => simp only; wf_close
  | fireAndForget data =>
    simp only [apiStep]
    have ha := wf_allocate st h
    rcases hal : allocate st with ⟨o, st1⟩
    rw [hal] at ha
    dsimp only at ha
    cases o <;> exact ha
  | metadataPush data => exact h
  | requestStream data n sub =>
    simp only [apiStep]
    have ha := wf_allocate st h
    rcases hal : allocate st with ⟨o, st1⟩
    rw [hal] at ha
    dsimp only at ha
    cases o with
    | none => exact ha
    | some sid =>
      simp only
      split
      · wf_close
      · split <;> wf_close
  | requestChannel data n hasPub sub =>
    simp only [apiStep]
    have ha := wf_allocate st h
    rcases hal : allocate st with ⟨o, st1⟩
    rw [hal] at ha
    dsimp only at ha
    cases o with
    | none => exact ha
    | some sid =>
      simp only
      split
      · wf_close
      · split
        · split <;> wf_close
        · wf_close
  | subscribe oid =>
    simp only [apiStep]
    split
    · split
      · exact h
      · split
        · wf_close
        · split <;> wf_close
        · exact h
    · exact h
  | subRequest oid n =>
    simp only [apiStep]
    split
    · split <;> wf_close
    · exact h
  | subCancel oid =>
    simp only [apiStep]
    split
    · split <;> wf_close
    · exact h
  | futCancel oid =>
    simp only [apiStep]
    split
    · split <;> wf_close
    · exact h
  | pubNext oid data complete =>
    simp only [apiStep]
    split
    · split <;> (try split) <;> wf_close
    · exact h
  | pubComplete oid =>
    simp only [apiStep]
    split
    · split <;> wf_close
    · exact h
  | pubError oid =>
    simp only [apiStep]
    split
    · split <;> wf_close
    · exact h
  | hfResolve oid data =>
    simp only [apiStep]
    split
    · split <;> wf_close
    · exact h
  | hfFail oid =>
    simp only [apiStep]
    split
    · split <;> wf_close
    · exact h
  | cbRRReq oid =>
    simp only [apiStep]
    split
    · split
      · split <;> wf_close
      · exact h
    · exact h
  | cbRRResp oid =>
    simp only [apiStep]
    split
    · split
      · split <;> wf_close
      · exact h
    · exact h
  | fnfSent sid => simp only [apiStep]; wf_close
  | recv f b => exact h
  | lost => exact h
  | stopStreams => exact h

end RSocketModel.Engine

namespace RSocketModel.Engine

theorem cache_find (st : State) (h : WF st) (sid : Nat) (c : Frame)
    (hf : (st.cache.find? (·.1 == sid)).map (·.2) = some c) : c.sid = sid := by
  cases hq : st.cache.find? (·.1 == sid) with
  | none => simp [hq] at hf
  | some p =>
    simp only [hq, Option.map_some, Option.some.injEq] at hf
    have hm := List.mem_of_find?_eq_some hq
    have hp := List.find?_some hq
    simp only [beq_iff_eq] at hp
    rw [← hf, h.cache_sid p hm, hp]

theorem wf_cache_set (st : State) (h : WF st) (sid : Nat) (m : Frame) (hm : m.sid = sid) :
    WF { st with cache := st.cache.filter (·.1 != sid) ++ [(sid, m)] } := by
  refine ⟨h.table_obj, h.sids_nodup, h.oids_nodup, ?_, h.chan_open⟩
  intro p hp
  simp only [List.mem_append, List.mem_filter, List.mem_singleton] at hp
  rcases hp with ⟨hp, _⟩ | rfl
  · exact h.cache_sid p hp
  · exact hm

theorem wf_cache_del (st : State) (h : WF st) (sid : Nat) :
    WF { st with cache := st.cache.filter (·.1 != sid) } := by
  refine ⟨h.table_obj, h.sids_nodup, h.oids_nodup, ?_, h.chan_open⟩
  intro p hp
  simp only [List.mem_filter] at hp
  exact h.cache_sid p hp.1

/-- `cacheAppend` keeps the state well-formed and a completed frame carries the stream id of the
fragment that completed it -/
theorem cacheAppend_spec (st : State) (h : WF st) (f : Frame) :
    WF (cacheAppend st f).1 ∧ (∀ cf, (cacheAppend st f).2 = some (.ok cf) → cf.sid = f.sid) ∧
    (cacheAppend st f).1.table = st.table ∧ (cacheAppend st f).1.heap = st.heap ∧
    (cacheAppend st f).1.closed = st.closed ∧ (cacheAppend st f).1.hasLeasePublisher = st.hasLeasePublisher := by
  unfold cacheAppend
  cases hc : (st.cache.find? (·.1 == f.sid)).map (·.2) with
  | none =>
    cases hfol : f.follows
    · simp [hfol]; exact h
    · simp [hfol]; exact wf_cache_set st h f.sid f rfl
  | some c =>
    have hcs := cache_find st h f.sid c hc
    by_cases hty : f.ty = .payload
    · cases hfol : f.follows
      · simp [hfol, hty]
        exact ⟨wf_cache_del st h f.sid, hcs⟩
      · simp [hfol, hty]
        exact wf_cache_set st h f.sid _ hcs
    · cases hfol : f.follows <;> simp [hfol, hty] <;> exact h

end RSocketModel.Engine

namespace RSocketModel.Engine

theorem markChannel_obj (st : State) (oid : Nat) (s : Stream) (ho : st.obj oid = some s) (r t : Bool) :
    (markChannel st oid s r t).obj oid =
      some { s with recvComplete := s.recvComplete || r, sentComplete := s.sentComplete || t } := by
  simp only [markChannel]
  split
  · rw [finish_obj]; exact obj_setObj_self st oid s _ ho
  · exact obj_setObj_self st oid s _ ho

theorem wf_frameReceived (st : State) (h : WF st) (oid : Nat) (s : Stream) (ho : st.obj oid = some s) (f : Frame) :
    WF (frameReceived st oid s f).1 := by
  unfold frameReceived
  cases s.kind <;> simp only <;> cases f.ty <;> simp only <;> (repeat' split) <;> wf_close

theorem wf_handleByType (st : State) (h : WF st) (f : Frame) (b : Behaviour) : WF (handleByType st f b).1 := by
  unfold handleByType
  cases f.ty <;> simp only
  case requestResponse =>
    split
    · exact h
    · cases b <;> simp only <;> (try split) <;> wf_close
  case requestStream =>
    split
    · exact h
    · cases b <;> simp only <;> (try split) <;> wf_close
  case requestFnf =>
    split
    · exact h
    · cases b <;> exact h
  case setup => (repeat' split) <;> exact h
  case metadataPush => cases b <;> exact h
  case keepalive => exact h
  case requestChannel =>
    split
    · exact h
    · cases b <;> simp only <;> (try exact h)
      rename_i hasPub hasSub
      split
      · exact h
      · -- a freshly registered channel responder, then up to three `markChannel`s on it
        generalize hreg : st.register { kind := .chResp, sid := f.sid, hasPub := hasPub, subscribed := hasSub, setupDone := true } = r
        have hw : WF r.1 := by rw [← hreg]; exact wf_register st h _ (by simp)
        have ho : r.1.obj r.2 = some { kind := .chResp, sid := f.sid, hasPub := hasPub, subscribed := hasSub, setupDone := true } := by
          rw [← hreg]; exact obj_register st _
        rcases r with ⟨st0, oid⟩
        simp only at hw ho ⊢
        -- stage 1: subscribe(subscriber)
        have h1 : ∃ s1, WF (if hasSub then st0 else markChannel st0 oid
              { kind := .chResp, sid := f.sid, hasPub := hasPub, subscribed := hasSub, setupDone := true } true false) ∧
            (if hasSub then st0 else markChannel st0 oid
              { kind := .chResp, sid := f.sid, hasPub := hasPub, subscribed := hasSub, setupDone := true } true false).obj oid = some s1 := by
          cases hasSub
          · simp only [Bool.false_eq_true, if_false]
            exact ⟨_, wf_markChannel st0 hw oid _ ho _ _, markChannel_obj st0 oid _ ho _ _⟩
          · simp only [if_true]
            exact ⟨_, hw, ho⟩
        obtain ⟨s1, hw1, ho1⟩ := h1
        generalize (if hasSub then st0 else markChannel st0 oid
              { kind := .chResp, sid := f.sid, hasPub := hasPub, subscribed := hasSub, setupDone := true } true false) = st1 at hw1 ho1 ⊢
        simp only [ho1, Option.getD_some]
        -- stage 2: frame_received(REQUEST_CHANNEL): no publisher -> complete at once
        have h2 : ∃ s2, WF (if hasPub then st1 else markChannel st1 oid s1 false true) ∧
            (if hasPub then st1 else markChannel st1 oid s1 false true).obj oid = some s2 := by
          cases hasPub
          · simp only [Bool.false_eq_true, if_false]
            exact ⟨_, wf_markChannel st1 hw1 oid _ ho1 _ _, markChannel_obj st1 oid _ ho1 _ _⟩
          · simp only [if_true]
            exact ⟨_, hw1, ho1⟩
        obtain ⟨s2, hw2, ho2⟩ := h2
        generalize (if hasPub then st1 else markChannel st1 oid s1 false true) = st2 at hw2 ho2 ⊢
        simp only [ho2, Option.getD_some]
        -- stage 3: the request carried the complete flag
        split
        · exact wf_markChannel st2 hw2 oid _ ho2 _ _
        · exact hw2
  all_goals exact h

end RSocketModel.Engine

namespace RSocketModel.Engine

theorem wf_recvStep (st : State) (h : WF st) (f : Frame) (b : Behaviour) : WF (recvStep st f b).1 := by
  unfold recvStep
  split
  · exact h
  · have hc := (cacheAppend_spec st h f).1
    generalize hgen : (if isFragmentable f.ty = true then cacheAppend st f else (st, some (Except.ok f))) = r
    have hw : WF r.1 := by
      rw [← hgen]; split
      · exact hc
      · exact h
    rcases r with ⟨st', c⟩
    simp only at hw ⊢
    split
    · exact hw
    · exact hw
    · split
      · exact wf_handleByType st' hw _ b
      · split
        · exact hw
        · split
          · exact hw
          · exact wf_frameReceived st' hw _ _ (by assumption) _

theorem wf_stopOne (st : State) (h : WF st) (sid oid : Nat) (hm : (sid, oid) ∈ st.table) : WF (stopOne st sid oid).1 := by
  obtain ⟨s0, hs0, hsid⟩ := h.table_obj (sid, oid) hm
  simp only at hs0 hsid
  unfold stopOne
  rw [hs0]
  simp only
  subst hsid
  split <;> (repeat' split) <;> wf_close

theorem wf_stopAll (l : List (Nat × Nat)) : ∀ (st : State), WF st → (∀ p ∈ l, p ∈ st.table) → (l.map (·.1)).Nodup →
    WF (stopAll st l).1 := by
  induction l with
  | nil => intro st h _ _; exact h
  | cons p rest ih =>
    intro st h hmem hnd
    obtain ⟨sid, oid⟩ := p
    simp only [stopAll]
    simp only [List.map_cons, List.nodup_cons] at hnd
    have hw := wf_stopOne st h sid oid (hmem (sid, oid) (by simp))
    refine ih _ hw ?_ hnd.2
    intro q hq
    have hqt := hmem q (by simp [hq])
    have hne : q.1 ≠ sid := by
      intro e; apply hnd.1; rw [← e]; exact List.mem_map_of_mem hq
    have htab : (stopOne st sid oid).1.table = st.table.filter (·.1 != sid) := by
      unfold stopOne; (repeat' split) <;> rfl
    rw [htab, List.mem_filter]
    exact ⟨hqt, by simpa using hne⟩

theorem wf_step (st : State) (h : WF st) (ev : Ev) : WF (step st ev).1 := by
  unfold step
  cases ev <;> simp only
  case recv f b => exact wf_recvStep st h f b
  case lost =>
    unfold lostStep
    split
    · exact h
    · exact wf_closed _ (wf_stopAll _ st h (fun _ hp => hp) h.sids_nodup) _
  case stopStreams => exact wf_stopAll _ st h (fun _ hp => hp) h.sids_nodup
  all_goals exact wf_apiStep st h _

theorem wf_run (evs : List Ev) : ∀ (st : State), WF st → WF (run st evs).1 := by
  induction evs with
  | nil => intro st h; exact h
  | cons e es ih => intro st h; simp only [run]; exact ih _ (wf_step st h e)

end RSocketModel.Engine
