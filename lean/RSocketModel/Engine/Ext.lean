import RSocketModel.Engine.Signals
import RSocketModel.Props.C13
/-!
Monotonicity of engine states along steps: handler objects persist, keep their kind and stream id,
a closed receiving direction stays closed, a resolved future stays resolved; the stream table only
loses entries or gains entries for freshly created objects.
-/
namespace RSocketModel.Engine

def Mono (s s' : Stream) : Prop :=
  s'.kind = s.kind ∧ s'.sid = s.sid ∧ (s.recvComplete = true → s'.recvComplete = true) ∧ (s.fut ≠ .pending → s'.fut ≠ .pending) ∧
    (s.subscribed = true → s'.subscribed = true) ∧ s'.n0 = s.n0

theorem mono_refl (s : Stream) : Mono s s := ⟨rfl, rfl, id, id, id, rfl⟩
theorem mono_trans {a b c : Stream} (h1 : Mono a b) (h2 : Mono b c) : Mono a c :=
  ⟨h2.1.trans h1.1, h2.2.1.trans h1.2.1, fun h => h2.2.2.1 (h1.2.2.1 h), fun h => h2.2.2.2.1 (h1.2.2.2.1 h),
    fun h => h2.2.2.2.2.1 (h1.2.2.2.2.1 h), h2.2.2.2.2.2.trans h1.2.2.2.2.2⟩

/-- a requester of a stream or channel carries a positive initial request-n -/
def N0ok (s : Stream) : Prop := (s.kind = .stReq ∨ s.kind = .chReq) → 0 < s.n0

theorem n0ok_mono {s s' : Stream} (h : Mono s s') (hs : N0ok s) : N0ok s' := by
  intro hk; rw [h.1] at hk; rw [h.2.2.2.2.2]; exact hs hk

structure Ext (st st' : State) : Prop where
  objs : ∀ oid s, st.obj oid = some s → ∃ s', st'.obj oid = some s' ∧ Mono s s'
  table : ∀ q ∈ st'.table.map (·.2), q ∈ st.table.map (·.2) ∨ st.heap.length ≤ q
  heap : st.heap.length ≤ st'.heap.length
  fresh : ∀ oid s', st'.obj oid = some s' → st.obj oid = none → N0ok s'
  first : st'.first = st.first
  curpar : st.cur < 2 ^ 31 → st'.cur % 2 = st.cur % 2
  curlt : st.cur < 2 ^ 31 → st'.cur < 2 ^ 31

theorem ext_refl (st : State) : Ext st st :=
  ⟨fun _ s h => ⟨s, h, mono_refl s⟩, fun _ h => Or.inl h, Nat.le_refl _, fun _ _ h1 h2 => (by rw [h1] at h2; cases h2), rfl, fun _ => rfl, id⟩

theorem ext_trans {a b c : State} (h1 : Ext a b) (h2 : Ext b c) : Ext a c := by
  refine ⟨?_, ?_, Nat.le_trans h1.heap h2.heap, ?_, h2.first.trans h1.first, fun h => (h2.curpar (h1.curlt h)).trans (h1.curpar h),
    fun h => h2.curlt (h1.curlt h)⟩
  · intro oid s hs
    obtain ⟨s1, hs1, m1⟩ := h1.objs oid s hs
    obtain ⟨s2, hs2, m2⟩ := h2.objs oid s1 hs1
    exact ⟨s2, hs2, mono_trans m1 m2⟩
  · intro q hq
    rcases h2.table q hq with h | h
    · exact h1.table q h
    · exact Or.inr (Nat.le_trans h1.heap h)
  · intro oid s' hs' hn
    cases hb : b.obj oid with
    | none => exact h2.fresh oid s' hs' hb
    | some sb =>
      obtain ⟨s2, hs2, m2⟩ := h2.objs oid sb hb
      rw [hs'] at hs2; cases hs2
      exact n0ok_mono m2 (h1.fresh oid sb hb hn)

theorem ext_setObj (st : State) (oid : Nat) (s s' : Stream) (ho : st.obj oid = some s) (hm : Mono s s') :
    Ext st (st.setObj oid s') := by
  refine ⟨?_, fun _ h => Or.inl h, by simp [State.setObj], ?_, rfl, fun _ => rfl, id⟩
  · intro j x hx
    by_cases hj : j = oid
    · subst hj
      rw [ho] at hx; cases hx
      exact ⟨s', obj_setObj_self st j s s' ho, hm⟩
    · exact ⟨x, by rw [obj_setObj_ne st oid j s' hj]; exact hx, mono_refl x⟩
  · intro j x hx hn
    by_cases hj : j = oid
    · subst hj; rw [ho] at hn; cases hn
    · rw [obj_setObj_ne st oid j s' hj, hn] at hx; cases hx

theorem ext_finish (st : State) (sid : Nat) : Ext st (st.finish sid) := by
  refine ⟨fun _ s h => ⟨s, h, mono_refl s⟩, ?_, Nat.le_refl _, fun _ _ h1 h2 => (by rw [finish_obj, h2] at h1; cases h1), rfl, fun _ => rfl, id⟩
  intro q hq
  simp only [State.finish, List.mem_map, List.mem_filter] at hq
  obtain ⟨p, ⟨hp, _⟩, rfl⟩ := hq
  exact Or.inl (List.mem_map_of_mem hp)

theorem ext_unregister (st : State) (sid : Nat) : Ext st (st.unregister sid) := by
  have h := ext_finish st sid
  exact ⟨h.objs, h.table, h.heap, h.fresh, h.first, h.curpar, h.curlt⟩

theorem ext_register (st : State) (s : Stream) (hs : N0ok s) : Ext st (st.register s).1 := by
  refine ⟨?_, ?_, by simp [State.register], ?_, rfl, fun _ => rfl, id⟩
  · intro oid x hx
    exact ⟨x, obj_register_old st s oid x hx, mono_refl x⟩
  · intro q hq
    simp only [State.register, List.map_append, List.mem_append, List.mem_map, List.mem_filter, List.mem_singleton] at hq
    rcases hq with ⟨p, ⟨hp, _⟩, rfl⟩ | ⟨p, rfl, rfl⟩
    · exact Or.inl (List.mem_map_of_mem hp)
    · exact Or.inr (Nat.le_refl _)
  · intro oid x hx hn
    simp only [State.register, State.obj] at hx hn
    have hge : st.heap.length ≤ oid := by
      by_cases hlt : oid < st.heap.length
      · rw [List.getElem?_eq_getElem hlt] at hn; cases hn
      · omega
    rw [List.getElem?_append_right hge] at hx
    have : oid - st.heap.length = 0 := by
      by_cases h0 : oid - st.heap.length = 0
      · exact h0
      · rw [List.getElem?_eq_none (by simp; omega)] at hx; cases hx
    rw [this] at hx
    simp only [List.getElem?_cons_zero, Option.some.injEq] at hx
    rw [← hx]; exact hs

theorem ext_markChannel (st : State) (oid : Nat) (s : Stream) (ho : st.obj oid = some s) (r t : Bool) :
    Ext st (markChannel st oid s r t) := by
  have h1 : Ext st (st.setObj oid { s with recvComplete := s.recvComplete || r, sentComplete := s.sentComplete || t }) :=
    ext_setObj st oid s _ ho ⟨rfl, rfl, by simp; intro h; simp [h], id, id, rfl⟩
  simp only [markChannel]
  split
  · exact ext_trans h1 (ext_finish _ _)
  · exact h1

theorem ext_field' (st st' : State) (h1 : st'.heap = st.heap) (h2 : st'.table = st.table) (h3 : st'.first = st.first)
    (h4 : st.cur < 2 ^ 31 → st'.cur % 2 = st.cur % 2) (h5 : st.cur < 2 ^ 31 → st'.cur < 2 ^ 31) : Ext st st' := by
  refine ⟨?_, ?_, by rw [h1]; exact Nat.le_refl _, ?_, h3, h4, h5⟩
  · intro oid s hs
    exact ⟨s, by simp only [State.obj] at hs ⊢; rw [h1]; exact hs, mono_refl s⟩
  · intro q hq; rw [h2] at hq; exact Or.inl hq
  · intro oid s' hs' hn
    simp only [State.obj, h1] at hs' hn; rw [hs'] at hn; cases hn

theorem ext_field (st st' : State) (h1 : st'.heap = st.heap) (h2 : st'.table = st.table)
    (h3 : st'.first = st.first := by rfl) (h4 : st'.cur = st.cur := by rfl) : Ext st st' :=
  ext_field' st st' h1 h2 h3 (fun _ => by rw [h4]) (by rw [h4]; exact id)

syntax "n0ok" : tactic
macro_rules
  | `(tactic| n0ok) => `(tactic| first
    | (simp [N0ok]; done)
    | (simp only [N0ok]; intro _; (try simp only); (try split) <;> omega)
    | (intro _; simp_all; omega))

syntax "ext_close" : tactic
syntax "ext_close1" : tactic
macro_rules
  | `(tactic| ext_close) => `(tactic| (try dsimp only) <;> ext_close1)
macro_rules
  | `(tactic| ext_close1) => `(tactic| first
    | exact ext_refl _
    | exact ext_finish _ _
    | exact ext_unregister _ _
    | exact ext_trans (ext_setObj _ _ _ _ (by first | assumption | exact obj_register _ _) (by simp_all [Mono])) (ext_unregister _ _)
    | exact ext_trans (ext_setObj _ _ _ _ (by first | assumption | exact obj_register _ _) (by simp_all [Mono])) (ext_finish _ _)
    | exact ext_markChannel _ _ _ (by first | assumption | exact obj_setObj_self _ _ _ _ (by first | assumption | exact obj_register _ _) | exact obj_register _ _) _ _
    | exact ext_setObj _ _ _ _ (by first | assumption | exact obj_register _ _) (by simp_all [Mono])
    | exact ext_register _ _ (by n0ok)
    | exact ext_field _ _ rfl rfl)

theorem ext_allocate (st : State) : Ext st (allocate st).2 := by
  refine ext_field' _ _ rfl rfl rfl ?_ ?_
  · intro hc
    exact (StreamId.alloc_snd_inv 31 (by omega) st.isActive st.cur hc).2
  · intro hc
    exact (StreamId.alloc_snd_inv 31 (by omega) st.isActive st.cur hc).1

end RSocketModel.Engine

namespace RSocketModel.Engine

theorem ext_apiStep (st : State) (ev : Ev) : Ext st (apiStep st ev).1 := by
  cases ev with
  | requestResponse data =>
    simp only [apiStep]
    have ha := ext_allocate st
    rcases hal : allocate st with ⟨o, st1⟩
    rw [hal] at ha; dsimp only at ha
    cases o with
    | none => exact ha
    | some sid => simp only; exact ext_trans ha (by ext_close)
  | fireAndForget data =>
    simp only [apiStep]
    have ha := ext_allocate st
    rcases hal : allocate st with ⟨o, st1⟩
    rw [hal] at ha; dsimp only at ha
    cases o <;> exact ha
  | metadataPush data => exact ext_refl _
  | requestStream data n sub =>
    simp only [apiStep]
    have ha := ext_allocate st
    rcases hal : allocate st with ⟨o, st1⟩
    rw [hal] at ha; dsimp only at ha
    cases o with
    | none => exact ha
    | some sid =>
      simp only
      refine ext_trans ha ?_
      split
      · exact ext_trans (ext_register _ _ (by n0ok)) (ext_finish _ _)
      · split
        · exact ext_trans (ext_register _ _ (by n0ok)) (ext_setObj _ _ _ _ (obj_register _ _) (by simp [Mono]))
        · exact ext_register _ _ (by n0ok)
  | requestChannel data n hasPub sub =>
    simp only [apiStep]
    have ha := ext_allocate st
    rcases hal : allocate st with ⟨o, st1⟩
    rw [hal] at ha; dsimp only at ha
    cases o with
    | none => exact ha
    | some sid =>
      simp only
      refine ext_trans ha ?_
      split
      · exact ext_trans (ext_register _ _ (by n0ok)) (ext_finish _ _)
      · split
        · split
          · exact ext_trans (ext_register _ _ (by n0ok)) (ext_setObj _ _ _ _ (obj_register _ _) (by simp [Mono]))
          · dsimp only
            refine ext_trans (ext_register _ _ (by n0ok)) (ext_trans (ext_setObj _ _ _ _ (obj_register _ _) ?_)
              (ext_markChannel _ _ _ (obj_setObj_self _ _ _ _ (obj_register _ _)) _ _))
            simp [Mono]
        · exact ext_register _ _ (by n0ok)
  | subscribe oid =>
    simp only [apiStep]
    split
    · split
      · exact ext_refl _
      · split
        · ext_close
        · split
          · exact ext_setObj _ _ _ _ (by assumption) (by simp [Mono])
          · dsimp only
            refine ext_trans (ext_setObj _ _ _ _ (by assumption) ?_)
              (ext_markChannel _ _ _ (obj_setObj_self _ _ _ _ (by assumption)) _ _)
            simp [Mono]
        · exact ext_refl _
    · exact ext_refl _
  | subRequest oid n =>
    simp only [apiStep]
    split
    · split <;> ext_close
    · exact ext_refl _
  | subCancel oid =>
    simp only [apiStep]
    split
    · split <;> ext_close
    · exact ext_refl _
  | futCancel oid =>
    simp only [apiStep]
    split
    · split <;> ext_close
    · exact ext_refl _
  | pubNext oid data complete =>
    simp only [apiStep]
    split
    · split <;> (try split) <;> ext_close
    · exact ext_refl _
  | pubComplete oid =>
    simp only [apiStep]
    split
    · split <;> ext_close
    · exact ext_refl _
  | pubError oid =>
    simp only [apiStep]
    split
    · split <;> ext_close
    · exact ext_refl _
  | hfResolve oid data =>
    simp only [apiStep]
    split
    · split <;> ext_close
    · exact ext_refl _
  | hfFail oid =>
    simp only [apiStep]
    split
    · split <;> ext_close
    · exact ext_refl _
  | cbRRReq oid =>
    simp only [apiStep]
    split
    · split
      · split <;> ext_close
      · exact ext_refl _
    · exact ext_refl _
  | cbRRResp oid =>
    simp only [apiStep]
    split
    · split
      · split <;> ext_close
      · exact ext_refl _
    · exact ext_refl _
  | fnfSent sid => simp only [apiStep]; exact ext_finish _ _
  | recv f b => exact ext_refl _
  | lost => exact ext_refl _
  | stopStreams => exact ext_refl _

theorem ext_frameReceived (st : State) (oid : Nat) (s : Stream) (ho : st.obj oid = some s) (f : Frame) :
    Ext st (frameReceived st oid s f).1 := by
  unfold frameReceived
  cases hk : s.kind <;> simp only <;> cases f.ty <;> simp only <;> (repeat' split) <;> ext_close

theorem ext_cacheAppend (st : State) (f : Frame) : Ext st (cacheAppend st f).1 := by
  unfold cacheAppend
  simp only
  (repeat' split) <;> exact ext_field _ _ rfl rfl

theorem ext_handleByType (st : State) (f : Frame) (b : Behaviour) : Ext st (handleByType st f b).1 := by
  unfold handleByType
  cases f.ty <;> simp only
  case requestResponse =>
    split
    · exact ext_refl _
    · cases b <;> simp only <;> (try split) <;> ext_close
  case requestStream =>
    split
    · exact ext_refl _
    · cases b <;> simp only <;> (try split) <;> ext_close
  case requestFnf =>
    split
    · exact ext_refl _
    · cases b <;> exact ext_refl _
  case setup => (repeat' split) <;> exact ext_refl _
  case metadataPush => cases b <;> exact ext_refl _
  case keepalive => exact ext_refl _
  case requestChannel =>
    split
    · exact ext_refl _
    · cases b <;> simp only <;> (try exact ext_refl _)
      rename_i hasPub hasSub
      split
      · exact ext_refl _
      · generalize hreg : st.register { kind := .chResp, sid := f.sid, hasPub := hasPub, subscribed := hasSub, setupDone := true } = r
        have he : Ext st r.1 := by rw [← hreg]; exact ext_register st _ (by n0ok)
        have ho : r.1.obj r.2 = some { kind := .chResp, sid := f.sid, hasPub := hasPub, subscribed := hasSub, setupDone := true } := by
          rw [← hreg]; exact obj_register st _
        rcases r with ⟨st0, oid⟩
        simp only at he ho ⊢
        have h1 : ∃ s1, Ext st (if hasSub then st0 else markChannel st0 oid
              { kind := .chResp, sid := f.sid, hasPub := hasPub, subscribed := hasSub, setupDone := true } true false) ∧
            (if hasSub then st0 else markChannel st0 oid
              { kind := .chResp, sid := f.sid, hasPub := hasPub, subscribed := hasSub, setupDone := true } true false).obj oid = some s1 := by
          cases hasSub
          · simp only [Bool.false_eq_true, if_false]
            exact ⟨_, ext_trans he (ext_markChannel st0 oid _ ho _ _), markChannel_obj st0 oid _ ho _ _⟩
          · simp only [if_true]
            exact ⟨_, he, ho⟩
        obtain ⟨s1, he1, ho1⟩ := h1
        generalize (if hasSub then st0 else markChannel st0 oid
              { kind := .chResp, sid := f.sid, hasPub := hasPub, subscribed := hasSub, setupDone := true } true false) = st1 at he1 ho1 ⊢
        simp only [ho1, Option.getD_some]
        have h2 : ∃ s2, Ext st (if hasPub then st1 else markChannel st1 oid s1 false true) ∧
            (if hasPub then st1 else markChannel st1 oid s1 false true).obj oid = some s2 := by
          cases hasPub
          · simp only [Bool.false_eq_true, if_false]
            exact ⟨_, ext_trans he1 (ext_markChannel st1 oid _ ho1 _ _), markChannel_obj st1 oid _ ho1 _ _⟩
          · simp only [if_true]
            exact ⟨_, he1, ho1⟩
        obtain ⟨s2, he2, ho2⟩ := h2
        generalize (if hasPub then st1 else markChannel st1 oid s1 false true) = st2 at he2 ho2 ⊢
        simp only [ho2, Option.getD_some]
        split
        · exact ext_trans he2 (ext_markChannel st2 oid _ ho2 _ _)
        · exact he2
  all_goals exact ext_refl _

theorem ext_recvStep (st : State) (f : Frame) (b : Behaviour) : Ext st (recvStep st f b).1 := by
  unfold recvStep
  split
  · exact ext_refl _
  · generalize hgen : (if isFragmentable f.ty = true then cacheAppend st f else (st, some (Except.ok f))) = r
    have he : Ext st r.1 := by
      rw [← hgen]; split
      · exact ext_cacheAppend st f
      · exact ext_refl _
    rcases r with ⟨st', c⟩
    simp only at he ⊢
    split
    · exact he
    · exact he
    · split
      · exact ext_trans he (ext_handleByType st' _ b)
      · split
        · exact he
        · split
          · exact he
          · exact ext_trans he (ext_frameReceived st' _ _ (by assumption) _)

theorem ext_stopOne (st : State) (sid oid : Nat) : Ext st (stopOne st sid oid).1 := by
  unfold stopOne
  split
  · ext_close
  · split <;> (repeat' split) <;> ext_close

theorem ext_stopAll (l : List (Nat × Nat)) : ∀ st : State, Ext st (stopAll st l).1 := by
  induction l with
  | nil => intro st; exact ext_refl _
  | cons p rest ih =>
    intro st
    simp only [stopAll]
    exact ext_trans (ext_stopOne st p.1 p.2) (ih _)

theorem ext_step (st : State) (ev : Ev) : Ext st (step st ev).1 := by
  unfold step
  cases ev <;> simp only
  case recv f b => exact ext_recvStep st f b
  case lost =>
    unfold lostStep
    split
    · exact ext_refl _
    · exact ext_trans (ext_stopAll _ st) (ext_field _ _ rfl rfl)
  case stopStreams => exact ext_stopAll _ st
  all_goals exact ext_apiStep st _

end RSocketModel.Engine
