import RSocketModel.Proofs.C11Lemmas
/-!
Which application objects the outputs of a step are addressed to, and when an object is *silent*
(cannot receive any further subscriber / future signal). Helper lemmas for C07 and C09.
-/
namespace RSocketModel.Engine

/-- the application object an output is addressed to (`none`: not object-addressed) -/
def Out.target : Out → Option Nat
  | .onSubscribe o | .onNext o _ _ | .onComplete o | .onError o _ | .futResult o _ | .futError o _
  | .pubSubscribe o | .pubRequest o _ | .pubCancel o | .hfCancel o | .created o _ => some o
  | _ => none

/-- subscriber signals after `on_subscribe`, and future resolutions -/
def Out.isSignal : Out → Bool
  | .onNext .. | .onComplete _ | .onError .. | .futResult .. | .futError .. => true
  | _ => false

/-- terminal signals: completion, error, an element flagged complete, a future resolution -/
def Out.isTerminal : Out → Bool
  | .onNext _ _ c => c
  | .onComplete _ | .onError .. | .futResult .. | .futError .. => true
  | _ => false

theorem frameReceived_targets (st : State) (oid : Nat) (s : Stream) (f : Frame) :
    ∀ x ∈ (frameReceived st oid s f).2, x.target = none ∨ x.target = some oid := by
  unfold frameReceived
  cases s.kind <;> simp only <;> cases f.ty <;> simp only <;> (repeat' split) <;> simp [Out.target]

theorem handleByType_targets (st : State) (f : Frame) (b : Behaviour) :
    ∀ x ∈ (handleByType st f b).2, x.target = none ∨ x.target = some st.heap.length := by
  unfold handleByType
  cases f.ty <;> simp only
  case requestResponse => split <;> (try cases b) <;> simp only <;> (repeat' split) <;> simp [Out.target, State.register]
  case requestStream => split <;> (try cases b) <;> simp only <;> (repeat' split) <;> simp [Out.target, State.register]
  case requestFnf => split <;> (try cases b) <;> simp [Out.target]
  case setup => (repeat' split) <;> simp [Out.target]
  case metadataPush => cases b <;> simp [Out.target]
  case keepalive => split <;> simp [Out.target]
  case requestChannel =>
    split
    · simp [Out.target]
    · cases b <;> simp only <;> (try simp [Out.target])
      rename_i hasPub hasSub
      split
      · simp [Out.target]
      · cases hasPub <;> cases hasSub <;> cases f.complete <;> simp [Out.target, State.register]
  all_goals simp [Out.target]

theorem stopOuts_targets (o : Option Stream) (q : Nat) : ∀ x ∈ stopOuts o q, x.target = some q := by
  intro x hx
  rcases stopOuts_mentions o q x hx with h | h | h | h <;> (subst h; rfl)

/-- an object is silent when nothing can be delivered to it any more: a stream requester that is
no longer registered, a channel whose receiving direction is closed, a request-response whose
awaitable is no longer pending; request-response and stream responders have no subscriber -/
def Silent (st : State) (oid : Nat) : Prop :=
  ∃ s, st.obj oid = some s ∧
    match s.kind with
    | .stReq => oid ∉ st.table.map (·.2)
    | .chReq | .chResp => s.recvComplete = true
    | .rrReq => s.fut ≠ .pending
    | .rrResp | .stResp => True

theorem frameReceived_silent (st : State) (oid : Nat) (s : Stream) (f : Frame)
    (hs : match s.kind with
      | .stReq => False
      | .chReq | .chResp => s.recvComplete = true
      | .rrReq => s.fut ≠ .pending
      | .rrResp | .stResp => True) :
    ∀ x ∈ (frameReceived st oid s f).2, x.isSignal = false := by
  unfold frameReceived
  cases hk : s.kind <;> simp only [hk] at hs ⊢ <;> cases f.ty <;> simp only <;> (repeat' split) <;>
    simp_all [Out.isSignal]

theorem stopOuts_silent (s : Stream) (q : Nat)
    (hs : match s.kind with
      | .stReq => False
      | .chReq | .chResp => s.recvComplete = true
      | .rrReq => s.fut ≠ .pending
      | .rrResp | .stResp => True) :
    ∀ x ∈ stopOuts (some s) q, x.isSignal = false := by
  unfold stopOuts
  cases hk : s.kind <;> simp only [hk] at hs ⊢ <;> (repeat' split) <;> simp_all [Out.isSignal]

theorem apiStep_no_signal (st : State) (ev : Ev) : ∀ x ∈ (apiStep st ev).2, x.isSignal = false := by
  cases ev <;> simp only [apiStep]
  case requestResponse data => rcases allocate st with ⟨o, st1⟩; cases o <;> simp [Out.isSignal]
  case fireAndForget data => rcases allocate st with ⟨o, st1⟩; cases o <;> simp [Out.isSignal]
  case requestStream data n sub =>
    rcases allocate st with ⟨o, st1⟩
    cases o <;> simp only <;> (repeat' split) <;> simp [Out.isSignal]
  case requestChannel data n hp sub =>
    rcases allocate st with ⟨o, st1⟩
    cases o <;> simp only <;> (repeat' split) <;> simp [Out.isSignal]
    all_goals (cases hp <;> simp [Out.isSignal])
  all_goals ((repeat' split) <;> simp [Out.isSignal])

end RSocketModel.Engine

namespace RSocketModel.Engine

theorem mem_emit (st : State) (l : List Out) (x : Out) (h : x ∈ st.emit l) : x ∈ l := by
  simp only [State.emit] at h
  split at h
  · exact (List.mem_filter.mp h).1
  · exact h

theorem silent_cond (st : State) (oid : Nat) (s : Stream) (hs : Silent st oid) (ho : st.obj oid = some s)
    (hin : oid ∈ st.table.map (·.2)) :
    match s.kind with
      | .stReq => False
      | .chReq | .chResp => s.recvComplete = true
      | .rrReq => s.fut ≠ .pending
      | .rrResp | .stResp => True := by
  obtain ⟨s', hs', hc⟩ := hs
  rw [ho] at hs'; cases hs'
  cases hk : s.kind <;> simp only [hk] at hc ⊢ <;> first | exact hc | exact hc hin

theorem stopAll_silent (st : State) (h : WF st) (oid : Nat) (hs : Silent st oid) :
    ∀ x ∈ (stopAll st st.table).2, x.target = some oid → x.isSignal = false := by
  intro x hx ht
  rw [stopAll_outs st.table st h.oids_nodup, List.mem_flatMap] at hx
  obtain ⟨p, hp, hxp⟩ := hx
  have htg := stopOuts_targets _ _ x hxp
  rw [ht] at htg
  cases htg
  obtain ⟨s, ho, _⟩ := hs
  rw [ho] at hxp
  exact stopOuts_silent s p.2 (silent_cond st p.2 s ⟨s, ho, by assumption⟩ ho (List.mem_map_of_mem hp)) x hxp

/-- **a silent object receives no further signal**, whatever happens next -/
theorem silent_no_signal (st : State) (h : WF st) (oid : Nat) (hs : Silent st oid) (ev : Ev) :
    ∀ x ∈ (step st ev).2, x.target = some oid → x.isSignal = false := by
  intro x hx ht
  have hx := mem_emit _ _ _ hx
  cases ev with
  | lost =>
    simp only [lostStep] at hx
    split at hx
    · simp at hx
    · simp only [List.mem_append, List.mem_singleton] at hx
      rcases hx with hx | rfl
      · exact stopAll_silent st h oid hs x hx ht
      · rfl
  | stopStreams => exact stopAll_silent st h oid hs x hx ht
  | recv f b =>
    simp only at hx
    unfold recvStep at hx
    split at hx
    · simp at hx
    · have hspec := cacheAppend_spec st h f
      generalize hgen : (if isFragmentable f.ty = true then cacheAppend st f else (st, some (Except.ok f))) = r at hx
      have hheap : r.1.heap = st.heap ∧ r.1.table = st.table := by
        rw [← hgen]; split
        · exact ⟨hspec.2.2.2.1, hspec.2.2.1⟩
        · exact ⟨rfl, rfl⟩
      rcases r with ⟨st', c⟩
      simp only at hx hheap
      obtain ⟨s, ho, _⟩ := hs
      have holt := obj_lt st oid s ho
      split at hx
      · simp at hx
      · simp only [List.mem_singleton] at hx; subst hx; rfl
      · split at hx
        · have := handleByType_targets st' _ b x hx
          rw [ht, hheap.1] at this
          rcases this with h1 | h1
          · simp at h1
          · simp only [Option.some.injEq] at h1; omega
        · split at hx
          · simp only [List.mem_singleton] at hx; subst hx; rfl
          · split at hx
            · simp only [List.mem_singleton] at hx; subst hx; rfl
            · rename_i _ oid' hoid' _ s' hs'
              have := frameReceived_targets st' oid' s' _ x hx
              rw [ht] at this
              rcases this with h1 | h1
              · simp at h1
              · simp only [Option.some.injEq] at h1
                subst h1
                have ho' : st.obj oid = some s' := by
                  simp only [State.obj] at hs' ⊢; rw [← hheap.1]; exact hs'
                rw [ho] at ho'; cases ho'
                have hin : oid ∈ st.table.map (·.2) := by
                  rw [← hheap.2]
                  exact List.mem_map_of_mem (oidOf_mem st' _ oid hoid')
                exact frameReceived_silent st' oid s _ (silent_cond st oid s ⟨s, ho, by assumption⟩ ho hin) x hx
  | _ => exact apiStep_no_signal st _ x hx

end RSocketModel.Engine
