import RSocketModel.Basic
/-!
Model of the frame codec of `rsocket/frame.py` (+ `frame_helpers.py`): the 14 frame classes'
`serialize_frame_prefix` / `serialize` / `write_data_metadata` and `parse` / `parse_or_ignore`.

Reads mirror the Python: `struct.unpack_from` / `cbitstruct.unpack` on a short buffer *fail*
(the frame is invalid), slices never fail (a truncated field is simply shorter). The decoder
consumes from the front of the remaining buffer, which is `buffer[offset:]` in the code.
-/
namespace RSocketModel.Codec

inductive Frame where
  | setup (sid : Nat) (ign lease resume : Bool) (major minor ka life : Nat) (token mdEnc dEnc md d : Bytes)
  | lease (sid : Nat) (ign : Bool) (ttl n : Nat) (md : Bytes)
  | keepalive (sid : Nat) (ign respond : Bool) (pos : Nat) (d : Bytes)
  | requestResponse (sid : Nat) (ign follows : Bool) (md d : Bytes)
  | requestFnf (sid : Nat) (ign follows : Bool) (md d : Bytes)
  | requestStream (sid : Nat) (ign follows : Bool) (n : Nat) (md d : Bytes)
  | requestChannel (sid : Nat) (ign follows complete : Bool) (n : Nat) (md d : Bytes)
  | requestN (sid : Nat) (ign : Bool) (n : Nat)
  | cancel (sid : Nat) (ign : Bool)
  | payload (sid : Nat) (ign follows complete next : Bool) (md d : Bytes)
  | error (sid : Nat) (ign : Bool) (code : Nat) (d : Bytes)
  | metadataPush (sid : Nat) (ign : Bool) (md : Bytes)
  | resume (sid : Nat) (ign : Bool) (major minor : Nat) (token : Bytes) (spos cpos : Nat)
  | resumeOk (sid : Nat) (ign : Bool) (pos : Nat)
deriving Repr, DecidableEq

namespace Frame

def ty : Frame → Nat
  | setup .. => 1 | lease .. => 2 | keepalive .. => 3 | requestResponse .. => 4 | requestFnf .. => 5
  | requestStream .. => 6 | requestChannel .. => 7 | requestN .. => 8 | cancel .. => 9 | payload .. => 10
  | error .. => 11 | metadataPush .. => 12 | resume .. => 13 | resumeOk .. => 14

def sid : Frame → Nat
  | setup s .. => s | lease s .. => s | keepalive s .. => s | requestResponse s .. => s | requestFnf s .. => s
  | requestStream s .. => s | requestChannel s .. => s | requestN s .. => s | cancel s .. => s | payload s .. => s
  | error s .. => s | metadataPush s .. => s | resume s .. => s | resumeOk s .. => s

def ign : Frame → Bool
  | setup _ i .. => i | lease _ i .. => i | keepalive _ i .. => i | requestResponse _ i .. => i | requestFnf _ i .. => i
  | requestStream _ i .. => i | requestChannel _ i .. => i | requestN _ i .. => i | cancel _ i => i | payload _ i .. => i
  | error _ i .. => i | metadataPush _ i .. => i | resume _ i .. => i | resumeOk _ i .. => i

/-- the metadata section (`[]` for the types whose wire format has none) -/
def md : Frame → Bytes
  | setup (md := m) .. => m | lease (md := m) .. => m | requestResponse (md := m) .. => m
  | requestFnf (md := m) .. => m | requestStream (md := m) .. => m | requestChannel (md := m) .. => m
  | payload (md := m) .. => m | metadataPush (md := m) .. => m
  | _ => []

/-- the data section -/
def data : Frame → Bytes
  | setup (d := x) .. => x | keepalive (d := x) .. => x | requestResponse (d := x) .. => x
  | requestFnf (d := x) .. => x | requestStream (d := x) .. => x | requestChannel (d := x) .. => x
  | payload (d := x) .. => x | error (d := x) .. => x
  | _ => []

/-- `metadata_only` (LEASE, METADATA_PUSH): no 24-bit metadata length, metadata runs to the end -/
def metadataOnly : Frame → Bool
  | lease .. => true | metadataPush .. => true | _ => false

/-- type-specific flag bits 0x80, 0x40, 0x20 as set by each class's `serialize_frame_prefix` -/
def typeFlags : Frame → Bool × Bool × Bool
  | setup (lease := l) (resume := r) .. => (r, l, false)
  | keepalive (respond := r) .. => (r, false, false)
  | requestResponse (follows := f) .. => (f, false, false)
  | requestFnf (follows := f) .. => (f, false, false)
  | requestStream (follows := f) .. => (f, false, false)
  | requestChannel (follows := f) (complete := c) .. => (f, c, false)
  | payload (follows := f) (complete := c) (next := n) (md := m) (d := x) .. =>
      (f, c, n || !m.isEmpty || !x.isEmpty)          -- `next` is forced when there is content
  | _ => (false, false, false)

/-- `pack_string`: signed-byte length then the bytes -/
def packString (s : Bytes) : Bytes := UInt8.ofNat s.length :: s

/-- the type-specific part between the 6-byte header and the metadata length -/
def middle : Frame → Bytes
  | setup (resume := r) (major := ma) (minor := mi) (ka := ka) (life := li) (token := t) (mdEnc := me) (dEnc := de) .. =>
      beBytes 2 ma ++ beBytes 2 mi ++ beBytes 4 ka ++ beBytes 4 li ++
        (if r then beBytes 2 t.length ++ t else []) ++ packString me ++ packString de
  | lease (ttl := t) (n := n) .. => beBytes 4 (t % 2 ^ 31) ++ beBytes 4 (n % 2 ^ 31)
  | keepalive (pos := p) .. => beBytes 8 (p % 2 ^ 63)
  | requestStream (n := n) .. => beBytes 4 n
  | requestChannel (n := n) .. => beBytes 4 n
  | requestN (n := n) .. => beBytes 4 n
  | error (code := c) .. => beBytes 4 c
  | resume (major := ma) (minor := mi) (token := t) (spos := s) (cpos := c) .. =>
      beBytes 2 ma ++ beBytes 2 mi ++ beBytes 2 t.length ++ t ++ beBytes 8 (s % 2 ^ 63) ++ beBytes 8 (c % 2 ^ 63)
  | resumeOk (pos := p) .. => beBytes 8 (p % 2 ^ 63)
  | _ => []

end Frame

def bit (b : Bool) (v : Nat) : Nat := if b then v else 0

/-- the 10 flag bits: ignore 0x200, metadata 0x100, then the type-specific 0x80 0x40 0x20 -/
def flagsNat (i m b7 b6 b5 : Bool) : Nat := bit i 512 + bit m 256 + bit b7 128 + bit b6 64 + bit b5 32

/-- 4-byte stream id, then `(type << 2) | (flags >> 8)`, then `flags & 0xff` -/
def mkHeader (sid ty : Nat) (i m b7 b6 b5 : Bool) : Bytes :=
  beBytes 4 sid ++ [UInt8.ofNat (ty * 4 + flagsNat i m b7 b6 b5 / 256), UInt8.ofNat (flagsNat i m b7 b6 b5 % 256)]

/-- `Frame.serialize_frame_prefix`: header, type-specific middle, 24-bit metadata length -/
def prefixBytes (f : Frame) : Bytes :=
  mkHeader f.sid f.ty f.ign (!f.md.isEmpty) f.typeFlags.1 f.typeFlags.2.1 f.typeFlags.2.2 ++ f.middle ++
    (if !f.md.isEmpty && !f.metadataOnly then beBytes 3 f.md.length else [])

/-- what `write_data_metadata` hands to the writer, in order (empty sections are not written) -/
def bodyChunks (f : Frame) : List Bytes :=
  (if f.md.isEmpty then [] else [f.md]) ++ (if f.metadataOnly || f.data.isEmpty then [] else [f.data])

/-- `Frame.serialize` -/
def encode (f : Frame) : Bytes := prefixBytes f ++ f.md ++ (if f.metadataOnly then [] else f.data)

/-- `serialize_prefix_with_frame_size_header` + `write_data_metadata`: the writes a byte-stream
transport performs for one frame -/
def tcpWrites (f : Frame) : List Bytes := (beBytes 3 (encode f).length ++ prefixBytes f) :: bodyChunks f

/-! ### Decoding -/

inductive R (α : Type) where
  | ok (a : α)
  | fail            -- a read raised: the frame is undecodable
  | ood             -- outside the modelled domain (signed MIME length ≥ 128, over-long RESUME)
deriving Repr

def R.bind {α β : Type} : R α → (α → R β) → R β
  | .ok a, f => f a
  | .fail, _ => .fail
  | .ood, _ => .ood

instance : Monad R where
  pure := R.ok
  bind := R.bind

/-- `struct.unpack_from` of `k` big-endian bytes at the current offset -/
def readBE (k : Nat) (buf : Bytes) : R (Nat × Bytes) :=
  if k ≤ buf.length then .ok (beVal (buf.take k), buf.drop k) else .fail

/-- a slice `buffer[offset:offset+n]` followed by `offset += n` -/
def slice (n : Nat) (buf : Bytes) : Bytes × Bytes := (buf.take n, buf.drop n)

/-- `unpack_string` (signed length byte; ≥ 128 is outside the model) -/
def readString (buf : Bytes) : R (Bytes × Bytes) :=
  match buf with
  | [] => .fail
  | b :: rest => if b.toNat < 128 then .ok (rest.take b.toNat, rest.drop b.toNat) else .ood

/-- `parse_metadata` for a frame that is not `metadata_only` -/
def readMetadata (m : Bool) (buf : Bytes) : R (Bytes × Bytes) :=
  if m then do
    let (len, rest) ← readBE 3 buf
    pure (rest.take len, rest.drop len)
  else pure ([], buf)

/-- `unpack_position(buffer[offset:offset+8])`: exactly 8 bytes needed, top bit dropped -/
def readPos (buf : Bytes) : R (Nat × Bytes) := do
  let (v, rest) ← readBE 8 buf
  pure (v % 2 ^ 63, rest)

structure Header where
  sid : Nat
  ty : Nat
  ign : Bool
  m : Bool
  b7 : Bool
  b6 : Bool
  b5 : Bool
deriving Repr

def testBit (flags v : Nat) : Bool := flags / v % 2 == 1

/-- `parse_header` (cbitstruct layout `u1u31u6b1b1b1b1b1`; the native version agrees whenever the
reserved top bit of the stream id is clear) -/
def parseHeader (buf : Bytes) : Option (Header × Bytes) :=
  match buf.drop 4 with
  | t :: fl :: rest =>
    let flags := (t.toNat % 4) * 256 + fl.toNat
    some ({ sid := beVal (buf.take 4) % 2 ^ 31, ty := t.toNat / 4,
            ign := testBit flags 512, m := testBit flags 256,
            b7 := testBit flags 128, b6 := testBit flags 64, b5 := testBit flags 32 }, rest)
  | _ => none

def errorCodes : List Nat := [1, 2, 3, 4, 257, 258, 513, 514, 515, 516, 4294967295]

/-- each frame class's `parse` after the header -/
def parseBody (h : Header) (buf : Bytes) : R Frame :=
  match h.ty with
  | 1 => do
    let (ma, r) ← readBE 2 buf
    let (mi, r) ← readBE 2 r
    let (ka, r) ← readBE 4 r
    let (li, r) ← readBE 4 r
    let (tok, r) ← (if h.b7 then do
        let (tl, r) ← readBE 2 r
        pure (r.take tl, r.drop tl)
      else (pure ([], r) : R (Bytes × Bytes)))
    let (me, r) ← readString r
    let (de, r) ← readString r
    let (md, r) ← readMetadata h.m r
    pure (.setup h.sid h.ign h.b6 h.b7 ma mi ka li tok me de md r)
  | 2 => do
    let (ttl, r) ← readBE 4 buf
    let (n, r) ← readBE 4 r
    pure (.lease h.sid h.ign (ttl % 2 ^ 31) (n % 2 ^ 31) (if h.m then r else []))
  | 3 => do
    let (p, r) ← readPos buf
    pure (.keepalive h.sid h.ign h.b7 p r)
  | 4 => do
    let (md, r) ← readMetadata h.m buf
    pure (.requestResponse h.sid h.ign h.b7 md r)
  | 5 => do
    let (md, r) ← readMetadata h.m buf
    pure (.requestFnf h.sid h.ign h.b7 md r)
  | 6 => do
    let (n, r) ← readBE 4 buf
    let (md, r) ← readMetadata h.m r
    pure (.requestStream h.sid h.ign h.b7 n md r)
  | 7 => do
    let (n, r) ← readBE 4 buf
    let (md, r) ← readMetadata h.m r
    pure (.requestChannel h.sid h.ign h.b7 h.b6 n md r)
  | 8 => do
    let (n, _) ← readBE 4 buf
    pure (.requestN h.sid h.ign n)
  | 9 => pure (.cancel h.sid h.ign)
  | 10 => do
    let (md, r) ← readMetadata h.m buf
    pure (.payload h.sid h.ign h.b7 h.b6 h.b5 md r)
  | 11 => do
    let (c, r) ← readBE 4 buf
    if errorCodes.contains c then pure (.error h.sid h.ign c r) else .fail
  | 12 => pure (.metadataPush h.sid h.ign (if h.m then buf else []))
  | 13 => do
    let (ma, r) ← readBE 2 buf
    let (mi, r) ← readBE 2 r
    let (tl, r) ← readBE 2 r
    let tok := r.take tl
    let r := r.drop tl
    let (sp, r) ← readPos r
    if r.length = 8 then do
      let (cp, _) ← readPos r
      pure (.resume h.sid h.ign ma mi tok sp cp)
    else if r.length < 8 then .fail else .ood
  | 14 => do
    let (p, _) ← readPos buf
    pure (.resumeOk h.sid h.ign p)
  | _ => .fail

inductive Decoded where
  | frame (f : Frame)
  | ignored          -- `parse_or_ignore` returned `None`
  | invalid          -- it raised: `FrameParser` yields the invalid-frame marker
  | outOfDomain
deriving Repr, DecidableEq

/-- `parse_or_ignore` -/
def decode (buf : Bytes) : Decoded :=
  match parseHeader buf with
  | none => .invalid                                  -- shorter than a header
  | some (h, rest) =>
    if h.ty = 0 ∨ 14 < h.ty then .invalid            -- unknown frame type: raised outside the try
    else
      match parseBody h rest with
      | .ok f =>
        -- METADATA_PUSH on a stream other than 0 is dropped (`is_frame_to_ignore`)
        if f.ty = 12 ∧ f.sid ≠ 0 then .ignored else .frame f
      | .fail => if h.ign then .ignored else .invalid
      | .ood => .outOfDomain

/-- canonical form of a frame value: what decoding its encoding returns -/
def canon : Frame → Frame
  | .payload s i f c n m d => .payload s i f c (n || !m.isEmpty || !d.isEmpty) m d
  | f => f

/-- the wire format's ranges (the property's "legal frame value") -/
def WF : Frame → Prop
  | .setup s _ _ r ma mi ka li tok me de md _ =>
      s < 2 ^ 31 ∧ ma < 2 ^ 16 ∧ mi < 2 ^ 16 ∧ ka < 2 ^ 32 ∧ li < 2 ^ 32 ∧ tok.length < 2 ^ 16 ∧
      (r = false → tok = []) ∧ me.length < 128 ∧ de.length < 128 ∧ md.length < 2 ^ 24
  | .lease s _ t n _ => s < 2 ^ 31 ∧ t < 2 ^ 31 ∧ n < 2 ^ 31
  | .keepalive s _ _ p _ => s < 2 ^ 31 ∧ p < 2 ^ 63
  | .requestResponse s _ _ md _ => s < 2 ^ 31 ∧ md.length < 2 ^ 24
  | .requestFnf s _ _ md _ => s < 2 ^ 31 ∧ md.length < 2 ^ 24
  | .requestStream s _ _ n md _ => s < 2 ^ 31 ∧ n < 2 ^ 32 ∧ md.length < 2 ^ 24
  | .requestChannel s _ _ _ n md _ => s < 2 ^ 31 ∧ n < 2 ^ 32 ∧ md.length < 2 ^ 24
  | .requestN s _ n => s < 2 ^ 31 ∧ n < 2 ^ 32
  | .cancel s _ => s < 2 ^ 31
  | .payload s _ _ _ _ md _ => s < 2 ^ 31 ∧ md.length < 2 ^ 24
  | .error s _ c _ => s < 2 ^ 31 ∧ c ∈ errorCodes
  | .metadataPush s _ _ => s = 0
  | .resume s _ ma mi tok sp cp => s < 2 ^ 31 ∧ ma < 2 ^ 16 ∧ mi < 2 ^ 16 ∧ tok.length < 2 ^ 16 ∧ sp < 2 ^ 63 ∧ cp < 2 ^ 63
  | .resumeOk s _ p => s < 2 ^ 31 ∧ p < 2 ^ 63

instance (f : Frame) : Decidable (WF f) := by
  cases f <;> unfold WF <;> infer_instance

end RSocketModel.Codec
