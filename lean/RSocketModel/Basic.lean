/-! Byte-level helpers shared by the models (core Lean only). -/
namespace RSocketModel

abbrev Bytes := List UInt8

/-- big-endian encoding of `n` on `k` bytes (value taken modulo `256^k`, as `struct.pack` would
after the masks the code applies; callers guard the range). -/
def beBytes : Nat → Nat → Bytes
  | 0, _ => []
  | k + 1, n => beBytes k (n / 256) ++ [UInt8.ofNat (n % 256)]

def beVal (bs : Bytes) : Nat := bs.foldl (fun acc b => acc * 256 + b.toNat) 0

def hexDigit (n : Nat) : Char :=
  if n < 10 then Char.ofNat (48 + n) else Char.ofNat (87 + n)

def toHex (bs : Bytes) : String :=
  String.ofList (bs.flatMap fun b => [hexDigit (b.toNat / 16), hexDigit (b.toNat % 16)])

def hexVal (c : Char) : Option Nat :=
  if '0' ≤ c ∧ c ≤ '9' then some (c.toNat - 48)
  else if 'a' ≤ c ∧ c ≤ 'f' then some (c.toNat - 87)
  else if 'A' ≤ c ∧ c ≤ 'F' then some (c.toNat - 55)
  else none

def ofHexChars : List Char → Option Bytes
  | [] => some []
  | [_] => none
  | a :: b :: rest => do
    let x ← hexVal a
    let y ← hexVal b
    let r ← ofHexChars rest
    pure (UInt8.ofNat (x * 16 + y) :: r)

/-- `-` denotes the empty byte string on the line protocol. -/
def ofHex (s : String) : Option Bytes :=
  if s == "-" then some [] else ofHexChars s.toList

def hexOrDash (bs : Bytes) : String := if bs.isEmpty then "-" else toHex bs

end RSocketModel
