/-!
Model of the send queue of `rsocket/rsocket_base.py`: `send_frame` (`put_nowait`),
`send_priority_frame`, and `_get_next_frame_to_send` (peek the head; a fragmentable frame yields
its next fragment and, while `follows` is set, the queued frames of *that stream* are cycled
behind the frames of other streams, keeping their order — the code after fix F3).

A queued frame is a `Src`: its stream id and the labels of the fragments it still has to emit
(a frame that is not fragmented has exactly one).
-/
namespace RSocketModel.SendQueue

/-- generic in the type `β` of what identifies a fragment (labels in the driver, frames in the
end-to-end composition of C01) -/
structure Src (β : Type) where
  sid : Nat
  frags : List β
deriving Repr

abbrev Queue (β : Type) := List (Src β)

inductive Ev (β : Type) where
  | enq (s : Src β)        -- `send_frame`
  | enqFront (s : Src β)   -- `send_priority_frame` (SETUP)
  | step                   -- one pass of `_get_next_frame_to_send`
deriving Repr

variable {β : Type}

/-- `_cycle_stream_to_back_of_send_queue` -/
def cycle (sid : Nat) (q : Queue β) : Queue β := q.filter (·.sid != sid) ++ q.filter (·.sid == sid)

structure State (β : Type) where
  queue : Queue β
  wire : List (Nat × β)     -- (stream id, fragment) in emission order
deriving Repr

def step (s : State β) : State β :=
  match s.queue with
  | [] => s                                       -- sender waits in `peek`
  | h :: t =>
    match h.frags with
    | [] => { s with queue := t }                 -- not reachable: every frame has ≥ 1 fragment
    | [f] => { queue := t, wire := s.wire ++ [(h.sid, f)] }
    | f :: g :: rest =>
      { queue := cycle h.sid ({ h with frags := g :: rest } :: t), wire := s.wire ++ [(h.sid, f)] }

def apply (s : State β) : Ev β → State β
  | .enq src => { s with queue := s.queue ++ [src] }
  | .enqFront src => { s with queue := src :: s.queue }
  | .step => step s

def run (s : State β) (evs : List (Ev β)) : State β := evs.foldl apply s

def init : State β := { queue := [], wire := [] }

/-- fragments still to be emitted for stream `sid`, in queue order -/
def pending (sid : Nat) (q : Queue β) : List β := (q.filter (·.sid == sid)).flatMap (·.frags)

/-- what has been emitted for stream `sid` -/
def wireOf (sid : Nat) (w : List (Nat × β)) : List β := (w.filter (·.1 == sid)).map (·.2)

/-- everything ever queued for stream `sid`, in queueing order (priority frames are only legal
for a stream with nothing queued, see `Legal`) -/
def queuedFor (sid : Nat) : List (Ev β) → List β
  | [] => []
  | .enq src :: es => (if src.sid == sid then src.frags else []) ++ queuedFor sid es
  | .enqFront src :: es => (if src.sid == sid then src.frags else []) ++ queuedFor sid es
  | .step :: es => queuedFor sid es

def total (q : Queue β) : Nat := (q.map (·.frags.length)).sum

end RSocketModel.SendQueue
