/-!
Model of the requester-side lease gate: `rsocket/lease.py` (`DefinedLease._is_request_allowed`) and
`rsocket_base.py` (`send_request`, `_queue_request_frame`, `handle_lease`), under a virtual clock
in integer milliseconds; and of the responder's announcement (`send_lease`, `DefinedLease.to_frame`).
-/
namespace RSocketModel.Lease

structure LeaseSt where
  max : Nat
  used : Nat
  created : Nat
  ttl : Nat
deriving Repr, DecidableEq

/-- `_is_request_allowed`: an expired lease refuses without counting; otherwise the counter is
incremented first and compared with the granted number -/
def allow (l : LeaseSt) (now : Nat) : Bool × LeaseSt :=
  if l.created + l.ttl ≤ now then (false, l)
  else (decide (l.used + 1 ≤ l.max), { l with used := l.used + 1 })

structure State where
  lease : LeaseSt
  queue : List Nat           -- held requests (tags), oldest first
  capacity : Nat             -- `request_queue_size`; 0 = unbounded (asyncio.Queue(0))
  sent : List (Nat × Nat)    -- (tag, time) in send order
  rejected : List Nat        -- requests refused with QueueFull
  underLease : Nat           -- (ghost) requests sent under the lease currently in force
  now : Nat
deriving Repr

/-- `_reset_internals` with `honor_lease`: a lease granting nothing -/
def init (capacity t0 : Nat) : State :=
  { lease := { max := 0, used := 0, created := t0, ttl := 2147483647 }, queue := [], capacity := capacity,
    sent := [], rejected := [], underLease := 0, now := t0 }

inductive Ev where
  | request (tag : Nat) (at_ : Nat)        -- a request-initiating frame handed to `send_request`
  | lease (n ttl : Nat) (at_ : Nat)        -- LEASE frame received
deriving Repr, DecidableEq

/-- the drain loop of `handle_lease`: `while not queue.empty() and lease.is_request_allowed()` -/
def drain (l : LeaseSt) (now : Nat) : List Nat → List (Nat × Nat) → LeaseSt × List Nat × List (Nat × Nat)
  | [], sent => (l, [], sent)
  | r :: rest, sent =>
    match allow l now with
    | (true, l') => drain l' now rest (sent ++ [(r, now)])
    | (false, l') => (l', r :: rest, sent)

def step (s : State) : Ev → State
  | .request tag t =>
    let now := max s.now t
    let (ok, l') := allow s.lease now
    if ok then { s with lease := l', sent := s.sent ++ [(tag, now)], underLease := s.underLease + 1, now := now }
    else if s.capacity ≠ 0 ∧ s.capacity ≤ s.queue.length then { s with lease := l', rejected := s.rejected ++ [tag], now := now }
    else { s with lease := l', queue := s.queue ++ [tag], now := now }
  | .lease n ttl t =>
    let now := max s.now t
    let r := drain { max := n, used := 0, created := now, ttl := ttl } now s.queue s.sent
    { s with lease := r.1, queue := r.2.1, sent := r.2.2, underLease := r.2.2.length - s.sent.length, now := now }

def run (s : State) (evs : List Ev) : State := evs.foldl step s

/-- requests accepted (not refused with QueueFull) so far, in arrival order -/
def accepted (s : State) : List Nat := s.sent.map (·.1) ++ s.queue

/-- `DefinedLease.to_frame` / `send_lease`: the LEASE frame announced for a published lease
(time-to-live given in microseconds) -/
def announce (n ttlUs : Nat) : Nat × Nat := (n, (ttlUs + 500) / 1000)

end RSocketModel.Lease
