import RSocketModel.Codec
import RSocketModel.Gen.Builders
/-!
Model of `rsocket/frame_builders.py` + `rsocket/payload.py`: the step from what the application
hands to the library (a `Payload` whose `data` / `metadata` may be `None`, `b''` or bytes; flags and
request-n of the call) to the frame *value* that is serialised.

Two descriptions, proved equal (`Props/C02.lean: c02_builders_match_source`):
* `build` — hand-written, reads like the rule;
* `interp (genBuild c)` — the meaning of the definitions the translator regenerates from the
  source's AST on every run (`Gen/Builders.lean`).
-/
namespace RSocketModel.Builders
open RSocketModel.Codec RSocketModel.BObj

/-- `rsocket.payload.Payload` -/
structure Payload where
  md : Option Bytes
  d : Option Bytes
deriving Repr, DecidableEq

/-- `None` and `b''` are one value for the encoder (`if self.metadata:`) and for the peer -/
def ob : Option Bytes → Bytes
  | none => []
  | some b => b

/-- one call of a builder, with the arguments the call sites pass -/
inductive Call where
  | payload (sid : Nat) (p : Payload) (complete isNext : Bool)
  | requestN (sid n : Nat)
  | cancel (sid : Nat)
  | requestChannel (sid : Nat) (p : Payload) (n : Nat) (complete : Bool)
  | requestStream (sid : Nat) (p : Payload) (n : Nat)
  | requestResponse (sid : Nat) (p : Payload)
  | fnf (sid : Nat) (p : Payload)
  | setup (p : Option Payload) (dEnc mdEnc : Bytes) (kaUs lifeUs : Nat) (honorLease : Bool)
  | metadataPush (md : Option Bytes)
  | keepalive (d : Option Bytes)
deriving Repr

/-- the frame value each builder returns -/
def build : Call → Frame
  | .payload sid p c n => .payload sid false false c n (ob p.md) (ob p.d)
  | .requestN sid n => .requestN sid false n
  | .cancel sid => .cancel sid false
  | .requestChannel sid p n c => .requestChannel sid false false c n (ob p.md) (ob p.d)
  | .requestStream sid p n => .requestStream sid false false n (ob p.md) (ob p.d)
  | .requestResponse sid p => .requestResponse sid false false (ob p.md) (ob p.d)
  | .fnf sid p => .requestFnf sid false false (ob p.md) (ob p.d)
  | .setup p de me ka li l =>
      .setup 0 false l false 1 0 ((ka + 500) / 1000) ((li + 500) / 1000) [] me de
        (match p with | some q => ob q.md | none => []) (match p with | some q => ob q.d | none => [])
  | .metadataPush md => .metadataPush 0 false (ob md)
  | .keepalive d => .keepalive 0 false true 0 (ob d)

/-- what the application handed in, as the peer can observe it: (metadata, data) -/
def Call.content : Call → Bytes × Bytes
  | .payload _ p _ _ => (ob p.md, ob p.d)
  | .requestChannel _ p _ _ => (ob p.md, ob p.d)
  | .requestStream _ p _ => (ob p.md, ob p.d)
  | .requestResponse _ p => (ob p.md, ob p.d)
  | .fnf _ p => (ob p.md, ob p.d)
  | .setup (some p) .. => (ob p.md, ob p.d)
  | .metadataPush md => (ob md, [])
  | .keepalive d => ([], ob d)
  | _ => ([], [])

/-- the stream the call names (connection-level builders: 0) -/
def Call.sid : Call → Nat
  | .payload s .. => s | .requestN s _ => s | .cancel s => s | .requestChannel s .. => s
  | .requestStream s .. => s | .requestResponse s _ => s | .fnf s _ => s
  | _ => 0

/-- `helpers.payload_from_frame`: the `Payload(frame.data, frame.metadata)` handed to the application,
as (metadata, data) -/
def payloadFromFrame (f : Frame) : Bytes × Bytes := (f.md, f.data)

/-! ### meaning of the generated definitions -/

def ov : Option Bytes → Val
  | none => .none
  | some b => .bytes b

/-- the generated function each call runs, applied to the call's arguments -/
def genBuild : Call → Obj
  | .payload sid p c n => Gen.to_payload_frame (.nat sid) (ov p.d) (ov p.md) (.bool c) (.bool n) .none
  | .requestN sid n => Gen.to_request_n_frame (.nat sid) (.nat n)
  | .cancel sid => Gen.to_cancel_frame (.nat sid)
  | .requestChannel sid p n c => Gen.to_request_channel_frame (.nat sid) (ov p.d) (ov p.md) .none (.nat n) (.bool c)
  | .requestStream sid p n => Gen.to_request_stream_frame (.nat sid) (ov p.d) (ov p.md) .none (.nat n)
  | .requestResponse sid p => Gen.to_request_response_frame (.nat sid) (ov p.d) (ov p.md) .none
  | .fnf sid p => Gen.to_fire_and_forget_frame (.nat sid) (ov p.d) (ov p.md) .none
  | .setup p de me ka li l =>
      Gen.to_setup_frame (match p with | some q => ov q.d | none => .none) (match p with | some q => ov q.md | none => .none)
        (.bytes de) (.bytes me) (.micros ka) (.micros li) (.bool l) p.isNone
  | .metadataPush md => Gen.to_metadata_push_frame (ov md)
  | .keepalive d => Gen.to_keepalive_frame (ov d)

/-- a frame object as the encoder reads it (`serialize_frame_prefix` of its class): `none` when an
attribute the encoder needs is unset or of the wrong kind (Python raises) -/
def interp (o : Obj) : Option Frame :=
  let g := o.get Gen.classDefaults
  match o.cls with
  | .PayloadFrame => do
      pure (.payload (← asNat (g .stream_id)) (← asBool (g .flags_ignore)) (← asBool (g .flags_follows))
        (← asBool (g .flags_complete)) (← asBool (g .flags_next)) (← asBytes (g .metadata)) (← asBytes (g .data)))
  | .RequestNFrame => do pure (.requestN (← asNat (g .stream_id)) (← asBool (g .flags_ignore)) (← asNat (g .request_n)))
  | .CancelFrame => do pure (.cancel (← asNat (g .stream_id)) (← asBool (g .flags_ignore)))
  | .RequestChannelFrame => do
      pure (.requestChannel (← asNat (g .stream_id)) (← asBool (g .flags_ignore)) (← asBool (g .flags_follows))
        (← asBool (g .flags_complete)) (← asNat (g .initial_request_n)) (← asBytes (g .metadata)) (← asBytes (g .data)))
  | .RequestStreamFrame => do
      pure (.requestStream (← asNat (g .stream_id)) (← asBool (g .flags_ignore)) (← asBool (g .flags_follows))
        (← asNat (g .initial_request_n)) (← asBytes (g .metadata)) (← asBytes (g .data)))
  | .RequestResponseFrame => do
      pure (.requestResponse (← asNat (g .stream_id)) (← asBool (g .flags_ignore)) (← asBool (g .flags_follows))
        (← asBytes (g .metadata)) (← asBytes (g .data)))
  | .RequestFireAndForgetFrame => do
      pure (.requestFnf (← asNat (g .stream_id)) (← asBool (g .flags_ignore)) (← asBool (g .flags_follows))
        (← asBytes (g .metadata)) (← asBytes (g .data)))
  | .SetupFrame => do
      let r ← asBool (g .flags_resume)
      if r then none else          -- no builder sets the resume flag; a resumable SETUP needs a token the builders do not assign
      pure (.setup (← asNat (g .stream_id)) (← asBool (g .flags_ignore)) (← asBool (g .flags_lease)) false
        (← asNat (g .major_version)) (← asNat (g .minor_version)) (← asNat (g .keep_alive_milliseconds))
        (← asNat (g .max_lifetime_milliseconds)) [] (← asBytes (g .metadata_encoding)) (← asBytes (g .data_encoding))
        (← asBytes (g .metadata)) (← asBytes (g .data)))
  | .MetadataPushFrame => do
      pure (.metadataPush (← asNat (g .stream_id)) (← asBool (g .flags_ignore)) (← asBytes (g .metadata)))
  | .ErrorFrame => do
      pure (.error (← asNat (g .stream_id)) (← asBool (g .flags_ignore)) (← asNat (g .error_code)) (← asBytes (g .data)))
  | .KeepAliveFrame => do
      pure (.keepalive (← asNat (g .stream_id)) (← asBool (g .flags_ignore)) (← asBool (g .flags_respond))
        (← asNat (g .last_received_position)) (← asBytes (g .data)))

end RSocketModel.Builders
