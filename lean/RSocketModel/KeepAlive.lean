/-!
Model of the keepalive logic: `RSocketBase.handle_keep_alive` (echo) and, under a virtual clock in
integer milliseconds, `RSocketClient._keepalive_send_task` (a respond-flagged KEEPALIVE every
period `P`, starting when the sender starts at `t0`) and `_keepalive_timeout_task` (a check every
maximum lifetime `L`, starting when the receiver starts at `c0`: the timeout callback is invoked
when `now − last_server_keepalive > L`). `r0` is the initial value of `last_server_keepalive`
(set when the client connects).
-/
namespace RSocketModel.KeepAlive

/-- `handle_keep_alive`: replies to send, as (respond flag, data) -/
def echo (respond : Bool) (data : List Nat) : List (Bool × List Nat) :=
  if respond then [(false, data)] else []

/-- time of the `i`-th keepalive sent (`i ≥ 1`) -/
def sendTime (t0 P i : Nat) : Nat := t0 + i * P

/-- time of the `j`-th liveness check (`j ≥ 1`) -/
def checkTime (c0 L j : Nat) : Nat := c0 + j * L

/-- `last_server_keepalive` as seen by a check at time `T`: the latest arrival not after `T`
(arrivals exactly at a check instant are outside the generator: asyncio's tie-break) -/
def lastBefore (r0 : Nat) (arrivals : List Nat) (T : Nat) : Nat :=
  (arrivals.filter (· ≤ T)).foldl max r0

/-- does the check at time `T` invoke the timeout callback? -/
def fires (r0 L : Nat) (arrivals : List Nat) (T : Nat) : Bool := L < T - lastBefore r0 arrivals T

/-- all keepalive send times up to a horizon -/
def sendsUpTo (t0 P horizon : Nat) : List Nat :=
  if P = 0 then [] else (List.range ((horizon - t0) / P)).map fun i => sendTime t0 P (i + 1)

/-- first check that fires, up to a horizon -/
def firstFire (r0 c0 L : Nat) (arrivals : List Nat) (horizon : Nat) : Option Nat :=
  if L = 0 then none else
    ((List.range ((horizon - c0) / L)).map fun j => checkTime c0 L (j + 1)).find? (fires r0 L arrivals)

end RSocketModel.KeepAlive
