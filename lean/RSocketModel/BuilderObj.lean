import RSocketModel.Basic
/-!
Vocabulary of the *generated* transcription of `rsocket/frame_builders.py` (`Gen/Builders.lean`,
rewritten from the source's AST on every run by `harness/translate.py: gen_builders`).

Every `to_*_frame` function of that module is straight-line code: it instantiates one frame class
and assigns attributes from its parameters. The translator emits, per function, the class and the
list of assignments in source order (`Obj`); `Builders.lean` gives that object its meaning as a
`Codec.Frame` (`interp`) and the property theorems are proved about the interpretation of what the
translator produced — so they are re-checked against what the code says now.

An attribute or class the translator does not know makes the generated file fail to compile (a
broken obligation), it is never silently dropped.
-/
namespace RSocketModel.BObj

/-- frame classes instantiated by `frame_builders.py` -/
inductive Cls where
  | PayloadFrame | RequestNFrame | CancelFrame | RequestChannelFrame | RequestStreamFrame
  | RequestResponseFrame | RequestFireAndForgetFrame | SetupFrame | MetadataPushFrame | KeepAliveFrame | ErrorFrame
deriving DecidableEq, Repr

/-- attributes assigned by `frame_builders.py` or read by the encoder -/
inductive Fld where
  | stream_id | flags_ignore | flags_follows | flags_complete | flags_next | flags_respond | flags_lease
  | flags_resume | data | metadata | request_n | initial_request_n | fragment_size_bytes | sent_future
  | last_received_position | keep_alive_milliseconds | max_lifetime_milliseconds | data_encoding
  | metadata_encoding | major_version | minor_version | flags_metadata | metadata_only | error_code
deriving DecidableEq, Repr

/-- Python values that occur: `None`, `bool`, `int`, `bytes`, a `timedelta` (in microseconds), a
fresh future (`create_future()`) -/
inductive Val where
  | none
  | bool (b : Bool)
  | nat (n : Nat)
  | bytes (b : Bytes)
  | micros (us : Nat)
  | fut
deriving DecidableEq, Repr

/-- `datetime_helpers.to_milliseconds`: `round(period.total_seconds() * 1000)`; exact for whole
milliseconds (the only case the theorems use), nearest otherwise -/
def toMs : Val → Val
  | .micros us => .nat ((us + 500) / 1000)
  | _ => .none

/-- a freshly instantiated frame object and the attribute assignments made on it, in source order -/
structure Obj where
  cls : Cls
  sets : List (Fld × Val)
deriving Repr

/-- the value an attribute holds after the assignments: the last assignment wins -/
def lookupLast (l : List (Fld × Val)) (f : Fld) : Option Val :=
  (l.reverse.find? (fun p => p.1 == f)).map (·.2)

/-- attribute read: assigned value, else the class's default from `__init__` (table regenerated
from the source: `Gen.classDefaults`), else unset (`AttributeError` in Python) -/
def Obj.get (defaults : List (Cls × Fld × Val)) (o : Obj) (f : Fld) : Option Val :=
  match lookupLast o.sets f with
  | some v => some v
  | none => (defaults.find? (fun r => r.1 == o.cls && r.2.1 == f)).map (·.2.2)

def asNat : Option Val → Option Nat
  | some (.nat n) => some n
  | _ => Option.none

def asBool : Option Val → Option Bool
  | some (.bool b) => some b
  | _ => Option.none

/-- a bytes attribute as the encoder sees it: `if self.metadata:` — `None` and `b''` are one value -/
def asBytes : Option Val → Option Bytes
  | some (.bytes b) => some b
  | some .none => some []
  | _ => Option.none

end RSocketModel.BObj
