import Driver.Common
import RSocketModel.Parser
open RSocketModel
namespace Driver

/-- Stub decoder used by the parser-loop correspondence (the harness installs the same stub in
place of `parse_or_ignore`): empty body or first byte 0xEE = raises (invalid marker), first byte
0xDD = ignored, anything else = a frame carrying the body. -/
def stubParse (body : Bytes) : List String :=
  match body with
  | [] => ["X"]
  | b :: _ => if b == 0xEE then ["X"] else if b == 0xDD then [] else ["F" ++ toHex body]

def showItems (r : List String × Bytes) : String :=
  s!"{" ".intercalate r.1} | {hexOrDash r.2}"

def cmdDrain (args : List String) : String :=
  match args.mapM ofHex with
  | some (buf :: chunks) => showItems (Parser.feedAll stubParse buf chunks)
  | _ => "bad-op"

def cmdMsg (args : List String) : String :=
  match args.mapM ofHex with
  | some [msg] =>
    match Parser.feedMsg stubParse [] msg with
    | some r => showItems r
    | none => "nonterminating"
  | _ => "bad-op"

end Driver
