import Driver.Common
import RSocketModel.Parser
import RSocketModel.Transport
open RSocketModel
namespace Driver

/-- Stub decoder used by the parser-loop correspondence (the harness installs the same stub in
place of `parse_or_ignore`): empty body or first byte 0xEE = raises (invalid marker), first byte
0xDD = ignored, anything else = a frame carrying the body. -/
def stubParse (body : Bytes) : List String :=
  match body with
  | [] => ["X"]
  | b :: _ => if b == 0xEE then ["X"] else if b == 0xDD then [] else ["F" ++ toHex body]

def showItems (r : List String × Bytes) : String :=
  s!"{" ".intercalate r.1} | {hexOrDash r.2}"

def cmdDrain (args : List String) : String :=
  match args.mapM ofHex with
  | some (buf :: chunks) => showItems (Parser.feedAll stubParse buf chunks)
  | _ => "bad-op"

def cmdMsg (args : List String) : String :=
  match args.mapM ofHex with
  | some [msg] =>
    match Parser.feedMsg stubParse [] msg with
    | some r => showItems r
    | none => "nonterminating"
  | _ => "bad-op"

/-- `tcp <read> ...` with `<read>` = `d<hex>` (what `read` returned; `d-` is the empty result), `eof`, `err` →
`<items> | reading <residual> / closed / failed` (receiver loop over `TransportTCP`, stub decoder) -/
def parseRead (t : String) : Option Transport.Read :=
  if t == "eof" then some .eof
  else if t == "err" then some .err
  else if t.startsWith "d" then (ofHex (t.drop 1).toString).map .data
  else none

def cmdTcp (args : List String) : String :=
  match args.mapM parseRead with
  | some reads =>
    let r := Transport.tcpLoop stubParse [] reads
    let e := match r.2 with
      | .reading buf => "reading " ++ hexOrDash buf
      | .closed => "closed"
      | .failed => "failed"
    s!"{" ".intercalate r.1} | {e}"
  | none => "bad-op"

/-- `ws client|server <msg> ...` with `<msg>` = `b<hex>` (binary; `b-` empty), `t` (any other kind of message), `x` (the iteration
fails) → `<items dispatched> | open / failed` (message pump + receiver loop of a websocket transport, stub decoder) -/
def parseWs (t : String) : Option Transport.WsMsg :=
  if t == "t" then some .other
  else if t == "x" then some .fail
  else if t.startsWith "b" then (ofHex (t.drop 1).toString).map .binary
  else none

def cmdWs (args : List String) : String :=
  match args with
  | side :: rest =>
    match rest.mapM parseWs with
    | some msgs =>
      let r := Transport.msgQueueLoop (Transport.pump (side == "client") stubParse msgs)
      s!"{" ".intercalate r.1} | {if r.2 then "failed" else "open"}"
    | none => "bad-op"
  | _ => "bad-op"

end Driver
