import Driver.Common
import RSocketModel.Engine.Step
open RSocketModel RSocketModel.Engine
namespace Driver

def parseTags (s : String) : Option (List Nat) := parseNatList s
def showTags (l : List Nat) : String := showNatList l

def parseFType (s : String) : Option FType :=
  match s with
  | "SETUP" => some .setup | "LEASE" => some .lease | "KEEPALIVE" => some .keepalive
  | "REQUEST_RESPONSE" => some .requestResponse | "REQUEST_FNF" => some .requestFnf
  | "REQUEST_STREAM" => some .requestStream | "REQUEST_CHANNEL" => some .requestChannel
  | "REQUEST_N" => some .requestN | "CANCEL" => some .cancel | "PAYLOAD" => some .payload
  | "ERROR" => some .error | "METADATA_PUSH" => some .metadataPush | "RESUME" => some .resume
  | "RESUME_OK" => some .resumeOk | _ => none

def showFType : FType → String
  | .setup => "SETUP" | .lease => "LEASE" | .keepalive => "KEEPALIVE" | .requestResponse => "REQUEST_RESPONSE"
  | .requestFnf => "REQUEST_FNF" | .requestStream => "REQUEST_STREAM" | .requestChannel => "REQUEST_CHANNEL"
  | .requestN => "REQUEST_N" | .cancel => "CANCEL" | .payload => "PAYLOAD" | .error => "ERROR"
  | .metadataPush => "METADATA_PUSH" | .resume => "RESUME" | .resumeOk => "RESUME_OK"

def parseBool (s : String) : Option Bool := if s == "1" then some true else if s == "0" then some false else none

def parseFlags (s : String) : Option (Bool × Bool × Bool × Bool) :=
  match s.toList with
  | [a, b, c, d] => do pure ((← parseBool a.toString), (← parseBool b.toString), (← parseBool c.toString), (← parseBool d.toString))
  | _ => none

def parseBeh (s : String) : Option Behaviour :=
  if s == "x" then some .raises else if s == "k" then some .ok else if s == "fp" then some .futPending
  else if s == "ff" then some .futFailed else if s == "pb" then some .publisher
  else if s.startsWith "fr." then (parseTags (s.drop 3).toString).map .futReady
  else if s.startsWith "ch" then
    match (s.drop 2).toString.toList with
    | [a, b] => do pure (.channel (← parseBool a.toString) (← parseBool b.toString))
    | _ => none
  else none

def parseEv (t : String) : Option Ev :=
  match t.splitOn ":" with
  | ["RR", d] => (parseTags d).map .requestResponse
  | ["FNF", d] => (parseTags d).map .fireAndForget
  | ["FNFD", s] => s.toNat?.map .fnfSent
  | ["MP", d] => (parseTags d).map .metadataPush
  | ["RS", d, n, s] => do pure (.requestStream (← parseTags d) (← n.toNat?) (← parseBool s))
  | ["RC", d, n, p, s] => do pure (.requestChannel (← parseTags d) (← n.toNat?) (← parseBool p) (← parseBool s))
  | ["SUB", o] => o.toNat?.map .subscribe
  | ["SRQ", o, n] => do pure (.subRequest (← o.toNat?) (← n.toNat?))
  | ["SCN", o] => o.toNat?.map .subCancel
  | ["FCN", o] => o.toNat?.map .futCancel
  | ["PN", o, d, c] => do pure (.pubNext (← o.toNat?) (← parseTags d) (← parseBool c))
  | ["PC", o] => o.toNat?.map .pubComplete
  | ["PE", o] => o.toNat?.map .pubError
  | ["HR", o, d] => do pure (.hfResolve (← o.toNat?) (← parseTags d))
  | ["HF", o] => o.toNat?.map .hfFail
  | ["LOST"] => some .lost
  | ["STOP"] => some .stopStreams
  | ["CBQ", o] => o.toNat?.map .cbRRReq
  | ["CBP", o] => o.toNat?.map .cbRRResp
  | ["RECV", ty, sid, fl, n, code, d, b] => do
    let (f, c, nx, r) ← parseFlags fl
    pure (.recv { ty := (← parseFType ty), sid := (← sid.toNat?), follows := f, complete := c, next := nx, respond := r,
                  n := (← n.toNat?), code := (← code.toNat?), data := (← parseTags d) } (← parseBeh b))
  | _ => none

def showFrameE (f : Frame) : String :=
  s!"S:{showFType f.ty}:{f.sid}:{b01 f.follows}{b01 f.complete}{b01 f.next}{b01 f.respond}:{f.n}:{f.code}:{showTags f.data}"

def showOut : Out → String
  | .send f => showFrameE f
  | .onSubscribe o => s!"OS:{o}"
  | .onNext o d c => s!"ON:{o}:{showTags d}:{b01 c}"
  | .onComplete o => s!"OC:{o}"
  | .onError o c => s!"OE:{o}:{c}"
  | .futResult o d => s!"FR:{o}:{showTags d}"
  | .futError o c => s!"FE:{o}:{c}"
  | .pubSubscribe o => s!"PS:{o}"
  | .pubRequest o n => s!"PR:{o}:{n}"
  | .pubCancel o => s!"PX:{o}"
  | .hfCancel o => s!"HX:{o}"
  | .handlerCall ty d => s!"HC:{showFType ty}:{showTags d}"
  | .onErrorCb c => s!"EC:{c}"
  | .onClose => "CL"
  | .drop sid => s!"DR:{sid}"
  | .created o sid => s!"CR:{o}:{sid}"
  | .raised w => s!"RA:{w}"

/-- `eng <first> <hasLeasePublisher 0|1> <event>...` → per-event outputs separated by ` | `, then the
final table and cache stream ids -/
def cmdEng (args : List String) : String :=
  match args with
  | first :: lp :: evs =>
    match first.toNat?, parseBool lp, evs.mapM parseEv with
    | some first, some lp, some evs =>
      let r := run (init first lp) evs
      let steps := r.2.map fun outs => " ".intercalate (outs.map showOut)
      let sids := (r.1.table.map (·.1)).toArray.qsort (· < ·) |>.toList
      let cs := (r.1.cache.map (·.1)).toArray.qsort (· < ·) |>.toList
      s!"{" | ".intercalate steps} || T={showNatList sids} C={showNatList cs}"
    | _, _, _ => "bad-op"
  | _ => "bad-op"

end Driver
