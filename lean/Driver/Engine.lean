import Driver.Common
import RSocketModel.Engine.Step
import RSocketModel.Codec
open RSocketModel RSocketModel.Engine
namespace Driver

def parseTags (s : String) : Option (List Nat) := parseNatList s
def showTags (l : List Nat) : String := showNatList l

def parseFType (s : String) : Option FType :=
  match s with
  | "SETUP" => some .setup | "LEASE" => some .lease | "KEEPALIVE" => some .keepalive
  | "REQUEST_RESPONSE" => some .requestResponse | "REQUEST_FNF" => some .requestFnf
  | "REQUEST_STREAM" => some .requestStream | "REQUEST_CHANNEL" => some .requestChannel
  | "REQUEST_N" => some .requestN | "CANCEL" => some .cancel | "PAYLOAD" => some .payload
  | "ERROR" => some .error | "METADATA_PUSH" => some .metadataPush | "RESUME" => some .resume
  | "RESUME_OK" => some .resumeOk | _ => none

def showFType : FType → String
  | .setup => "SETUP" | .lease => "LEASE" | .keepalive => "KEEPALIVE" | .requestResponse => "REQUEST_RESPONSE"
  | .requestFnf => "REQUEST_FNF" | .requestStream => "REQUEST_STREAM" | .requestChannel => "REQUEST_CHANNEL"
  | .requestN => "REQUEST_N" | .cancel => "CANCEL" | .payload => "PAYLOAD" | .error => "ERROR"
  | .metadataPush => "METADATA_PUSH" | .resume => "RESUME" | .resumeOk => "RESUME_OK"

def parseBool (s : String) : Option Bool := if s == "1" then some true else if s == "0" then some false else none

def parseFlags (s : String) : Option (Bool × Bool × Bool × Bool) :=
  match s.toList with
  | [a, b, c, d] => do pure ((← parseBool a.toString), (← parseBool b.toString), (← parseBool c.toString), (← parseBool d.toString))
  | _ => none

def parseBeh (s : String) : Option Behaviour :=
  if s == "x" then some .raises else if s == "k" then some .ok else if s == "fp" then some .futPending
  else if s == "ff" then some .futFailed else if s == "pb" then some .publisher
  else if s.startsWith "fr." then (parseTags (s.drop 3).toString).map .futReady
  else if s.startsWith "ch" then
    match (s.drop 2).toString.toList with
    | [a, b] => do pure (.channel (← parseBool a.toString) (← parseBool b.toString))
    | _ => none
  else none

def parseEv (t : String) : Option Ev :=
  match t.splitOn ":" with
  | ["RR", d] => (parseTags d).map .requestResponse
  | ["FNF", d] => (parseTags d).map .fireAndForget
  | ["FNFD", s] => s.toNat?.map .fnfSent
  | ["MP", d] => (parseTags d).map .metadataPush
  | ["RS", d, n, s] => do pure (.requestStream (← parseTags d) (← n.toNat?) (← parseBool s))
  | ["RC", d, n, p, s] => do pure (.requestChannel (← parseTags d) (← n.toNat?) (← parseBool p) (← parseBool s))
  | ["SUB", o] => o.toNat?.map .subscribe
  | ["SRQ", o, n] => do pure (.subRequest (← o.toNat?) (← n.toNat?))
  | ["SCN", o] => o.toNat?.map .subCancel
  | ["FCN", o] => o.toNat?.map .futCancel
  | ["PN", o, d, c] => do pure (.pubNext (← o.toNat?) (← parseTags d) (← parseBool c))
  | ["PC", o] => o.toNat?.map .pubComplete
  | ["PE", o] => o.toNat?.map .pubError
  | ["HR", o, d] => do pure (.hfResolve (← o.toNat?) (← parseTags d))
  | ["HF", o] => o.toNat?.map .hfFail
  | ["LOST"] => some .lost
  | ["STOP"] => some .stopStreams
  | ["CBQ", o] => o.toNat?.map .cbRRReq
  | ["CBP", o] => o.toNat?.map .cbRRResp
  | ["RECV", ty, sid, fl, n, code, d, b] => do
    let (f, c, nx, r) ← parseFlags fl
    pure (.recv { ty := (← parseFType ty), sid := (← sid.toNat?), follows := f, complete := c, next := nx, respond := r,
                  n := (← n.toNat?), code := (← code.toNat?), data := (← parseTags d) } (← parseBeh b))
  | _ => none

def showFrameE (f : Frame) : String :=
  s!"S:{showFType f.ty}:{f.sid}:{b01 f.follows}{b01 f.complete}{b01 f.next}{b01 f.respond}:{f.n}:{f.code}:{showTags f.data}"

def showOut : Out → String
  | .send f => showFrameE f
  | .onSubscribe o => s!"OS:{o}"
  | .onNext o d c => s!"ON:{o}:{showTags d}:{b01 c}"
  | .onComplete o => s!"OC:{o}"
  | .onError o c => s!"OE:{o}:{c}"
  | .futResult o d => s!"FR:{o}:{showTags d}"
  | .futError o c => s!"FE:{o}:{c}"
  | .pubSubscribe o => s!"PS:{o}"
  | .pubRequest o n => s!"PR:{o}:{n}"
  | .pubCancel o => s!"PX:{o}"
  | .hfCancel o => s!"HX:{o}"
  | .handlerCall ty d => s!"HC:{showFType ty}:{showTags d}"
  | .onErrorCb c => s!"EC:{c}"
  | .onClose => "CL"
  | .drop sid => s!"DR:{sid}"
  | .created o sid => s!"CR:{o}:{sid}"
  | .raised w => s!"RA:{w}"

/-- strict UTF-8 (what `bytes.decode('utf-8')` accepts): no overlong forms, no surrogates, ≤ U+10FFFF -/
def validUtf8 : List UInt8 → Bool
  | [] => true
  | a :: rest =>
    let cont (b : UInt8) : Bool := 0x80 ≤ b && b ≤ 0xBF
    if a ≤ 0x7F then validUtf8 rest
    else if 0xC2 ≤ a && a ≤ 0xDF then
      match rest with
      | b :: r => cont b && validUtf8 r
      | _ => false
    else if 0xE0 ≤ a && a ≤ 0xEF then
      match rest with
      | b :: c :: r =>
        let okb := if a == 0xE0 then 0xA0 ≤ b && b ≤ 0xBF else if a == 0xED then 0x80 ≤ b && b ≤ 0x9F else cont b
        okb && cont c && validUtf8 r
      | _ => false
    else if 0xF0 ≤ a && a ≤ 0xF4 then
      match rest with
      | b :: c :: d :: r =>
        let okb := if a == 0xF0 then 0x90 ≤ b && b ≤ 0xBF else if a == 0xF4 then 0x80 ≤ b && b ≤ 0x8F else cont b
        okb && cont c && cont d && validUtf8 r
      | _ => false
    else false

/-- a decoded wire frame as the engine sees it (payload data as tags; metadata only matters for
METADATA_PUSH, whose handler receives it) -/
def toEngine : Codec.Frame → Frame
  | .setup s _ l r _ _ _ _ _ _ _ _ d => { ty := .setup, sid := s, complete := l, respond := r, data := d.map (·.toNat) }
  | .lease s _ ttl n _ => { ty := .lease, sid := s, n := n, code := ttl }
  | .keepalive s _ r _ d => { ty := .keepalive, sid := s, respond := r, data := d.map (·.toNat) }
  | .requestResponse s _ f _ d => { ty := .requestResponse, sid := s, follows := f, data := d.map (·.toNat) }
  | .requestFnf s _ f _ d => { ty := .requestFnf, sid := s, follows := f, data := d.map (·.toNat) }
  | .requestStream s _ f n _ d => { ty := .requestStream, sid := s, follows := f, n := n, data := d.map (·.toNat) }
  | .requestChannel s _ f c n _ d => { ty := .requestChannel, sid := s, follows := f, complete := c, n := n, data := d.map (·.toNat) }
  | .requestN s _ n => { ty := .requestN, sid := s, n := n }
  | .cancel s _ => { ty := .cancel, sid := s }
  | .payload s _ f c nx _ d => { ty := .payload, sid := s, follows := f, complete := c, next := nx, data := d.map (·.toNat) }
  | .error s _ c d => { ty := .error, sid := s, code := c, respond := !validUtf8 d }
  | .metadataPush s _ md => { ty := .metadataPush, sid := s, data := md.map (·.toNat) }
  | .resume s .. => { ty := .resume, sid := s }
  | .resumeOk s .. => { ty := .resumeOk, sid := s }

/-- a script item: an engine event, or one raw message handed to the receiver (`RAW:<hex>:<beh>`):
decoded with the codec model, then dispatched; ignored / invalid input is a no-op -/
inductive EngItem where
  | ev (e : Ev)
  | raw (b : Bytes) (beh : Behaviour)

def parseEngItem (t : String) : Option EngItem :=
  match t.splitOn ":" with
  | ["RAW", h, b] => do pure (.raw (← ofHex h) (← parseBeh b))
  | _ => (parseEv t).map .ev

def runItems (st : State) : List EngItem → State × List String
  | [] => (st, [])
  | it :: rest =>
    let (st', out) : State × String :=
      match it with
      | .ev e => let r := step st e; (r.1, " ".intercalate (r.2.map showOut))
      | .raw b beh =>
        match Codec.decode b with
        | .frame f => let r := step st (.recv (toEngine f) beh); (r.1, " ".intercalate (r.2.map showOut))
        | .outOfDomain => (st, "OOD")
        | _ => (st, "")
    let r := runItems st' rest
    (r.1, out :: r.2)

/-- `eng <first> <hasLeasePublisher 0|1> <event>...` → per-event outputs separated by ` | `, then the
final table and cache stream ids and the objects with a pending done-callback -/
def cmdEng (args : List String) : String :=
  match args with
  | first :: lp :: evs =>
    match first.toNat?, parseBool lp, evs.mapM parseEngItem with
    | some first, some lp, some items =>
      let r := runItems (init first lp) items
      let sids := (r.1.table.map (·.1)).toArray.qsort (· < ·) |>.toList
      let cs := (r.1.cache.map (·.1)).toArray.qsort (· < ·) |>.toList
      -- objects whose done-callback the model has scheduled and not yet seen run
      let ps := (List.range r.1.heap.length).filter fun i => match r.1.heap[i]? with | some s => s.cb | none => false
      s!"{" | ".intercalate r.2} || T={showNatList sids} C={showNatList cs} P={showNatList ps}"
    | _, _, _ => "bad-op"
  | _ => "bad-op"

end Driver
