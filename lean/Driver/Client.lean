import Driver.C02
import RSocketModel.Client
import RSocketModel.KeepAlive
open RSocketModel RSocketModel.Client
namespace Driver

def showTag : Tag → String
  | .setup => "SETUP" | .req id => s!"REQ{id}" | .keepalive => "KA" | .other => "OTHER"

def parseCEv (t : String) : Option Ev :=
  if t == "C" then some .connect else if t == "X" then some .closeForReconnect else if t == "G" then some .providerYields
  else if t == "R" then some .request else if t == "K" then some .keepaliveTick else if t == "O" then some .queueOther
  else if t == "S" then some .senderStep else if t == "T" then some .keepaliveTimeout
  else if t.startsWith "P" then (t.drop 1).toNat?.map .response
  else none

/-- `cli <ev>...` → what each sender step sent, then the final state -/
def cmdCli (args : List String) : String :=
  match args.mapM parseCEv with
  | some evs =>
    let rec go (s : State) (evs : List Ev) (acc : List String) : State × List String :=
      match evs with
      | [] => (s, acc.reverse)
      | e :: es =>
        let s' := step s e
        let acc := if e == .senderStep then
            (if s'.wire.length > s.wire.length then (s'.wire.getLast?.map showTag).getD "-" else "-") :: acc
          else acc
        go s' es acc
    let (s, sent) := go {} evs []
    let showL (l : List Tag) := if l.isEmpty then "-" else ",".intercalate (l.map showTag)
    s!"{" ".intercalate sent} | wire={showL s.wire} epochs={";".intercalate (s.epochs.map showL)} failed={showNatList s.failed} pending={showNatList s.pending} next={s.nextId} alive={b01 s.alive} gate={b01 s.gate} closed={showNatList s.closedT}"
  | none => "bad-op"

/-- `setup ka=<us> life=<us> denc=<hex> mdenc=<hex> lease=<0|1> d=<hex> md=<hex>` -/
def cmdSetup (args : List String) : String :=
  match kvNat args "ka", kvNat args "life", kvHex args "denc", kvHex args "mdenc", kvBool args "lease", kvHex args "d", kvHex args "md" with
  | some ka, some life, some denc, some mdenc, some lease, some d, some md =>
    let c : Config := { keepAliveUs := ka, maxLifetimeUs := life, dataEnc := denc, mdEnc := mdenc, honorLease := lease, setupData := d, setupMd := md }
    let f := setupFrame c
    s!"{dumpFrame (Codec.canon f)} | {hexOrDash (Codec.encode f)}"
  | _, _, _, _, _, _, _ => "bad-op"

/-- `ka P=<ms> L=<ms> t0=<ms> c0=<ms> r0=<ms> h=<horizon ms> a=<arrivals>` -/
def cmdKa (args : List String) : String :=
  match kvNat args "P", kvNat args "L", kvNat args "t0", kvNat args "c0", kvNat args "r0", kvNat args "h", (kv args "a").bind parseNatList with
  | some P, some L, some t0, some c0, some r0, some h, some arr =>
    let sends := KeepAlive.sendsUpTo t0 P h
    let fire := KeepAlive.firstFire r0 c0 L arr h
    s!"sends={showNatList sends} fire={match fire with | some t => toString t | none => "-"}"
  | _, _, _, _, _, _, _ => "bad-op"

end Driver
