import Driver.Common
import RSocketModel.Codec
import RSocketModel.Builders
import RSocketModel.Errors
open RSocketModel RSocketModel.Codec
namespace Driver

def kvVer (args : List String) : Option (Nat × Nat) := do
  let v ← kv args "ver"
  match v.splitOn "." with
  | [a, b] => do pure ((← a.toNat?), (← b.toNat?))
  | _ => none

/-- parse the textual frame form used by `harness/frames.py: spec_line` -/
def parseFrame (args : List String) : Option Frame :=
  match args with
  | [] => none
  | t :: a => do
    let sid ← kvNat a "sid"
    let i ← kvBool a "I"
    match t with
    | "SETUP" => do
      let (ma, mi) ← kvVer a
      pure (.setup sid i (← kvBool a "L") (← kvBool a "R") ma mi (← kvNat a "ka") (← kvNat a "life")
        (← kvHex a "tok") (← kvHex a "mdenc") (← kvHex a "denc") (← kvHex a "md") (← kvHex a "d"))
    | "LEASE" => do pure (.lease sid i (← kvNat a "ttl") (← kvNat a "n") (← kvHex a "md"))
    | "KEEPALIVE" => do pure (.keepalive sid i (← kvBool a "R") (← kvNat a "pos") (← kvHex a "d"))
    | "REQUEST_RESPONSE" => do pure (.requestResponse sid i (← kvBool a "F") (← kvHex a "md") (← kvHex a "d"))
    | "REQUEST_FNF" => do pure (.requestFnf sid i (← kvBool a "F") (← kvHex a "md") (← kvHex a "d"))
    | "REQUEST_STREAM" => do pure (.requestStream sid i (← kvBool a "F") (← kvNat a "n") (← kvHex a "md") (← kvHex a "d"))
    | "REQUEST_CHANNEL" => do
      pure (.requestChannel sid i (← kvBool a "F") (← kvBool a "C") (← kvNat a "n") (← kvHex a "md") (← kvHex a "d"))
    | "REQUEST_N" => do pure (.requestN sid i (← kvNat a "n"))
    | "CANCEL" => pure (.cancel sid i)
    | "PAYLOAD" => do
      pure (.payload sid i (← kvBool a "F") (← kvBool a "C") (← kvBool a "N") (← kvHex a "md") (← kvHex a "d"))
    | "ERROR" => do pure (.error sid i (← kvNat a "code") (← kvHex a "d"))
    | "METADATA_PUSH" => do pure (.metadataPush sid i (← kvHex a "md"))
    | "RESUME" => do
      let (ma, mi) ← kvVer a
      pure (.resume sid i ma mi (← kvHex a "tok") (← kvNat a "spos") (← kvNat a "cpos"))
    | "RESUME_OK" => do pure (.resumeOk sid i (← kvNat a "pos"))
    | _ => none

/-- the same textual form as `harness/frames.py: dump` -/
def dumpFrame : Frame → String
  | .setup s i l r ma mi ka li tok me de md d =>
    s!"SETUP sid={s} I={b01 i} L={b01 l} R={b01 r} ver={ma}.{mi} ka={ka} life={li}" ++
      (if r then s!" tok={hexOrDash tok}" else "") ++
      s!" mdenc={hexOrDash me} denc={hexOrDash de} md={hexOrDash md} d={hexOrDash d}"
  | .lease s i t n md => s!"LEASE sid={s} I={b01 i} ttl={t} n={n} md={hexOrDash md}"
  | .keepalive s i r p d => s!"KEEPALIVE sid={s} I={b01 i} R={b01 r} pos={p} d={hexOrDash d}"
  | .requestResponse s i f md d => s!"REQUEST_RESPONSE sid={s} I={b01 i} F={b01 f} md={hexOrDash md} d={hexOrDash d}"
  | .requestFnf s i f md d => s!"REQUEST_FNF sid={s} I={b01 i} F={b01 f} md={hexOrDash md} d={hexOrDash d}"
  | .requestStream s i f n md d => s!"REQUEST_STREAM sid={s} I={b01 i} F={b01 f} n={n} md={hexOrDash md} d={hexOrDash d}"
  | .requestChannel s i f c n md d =>
    s!"REQUEST_CHANNEL sid={s} I={b01 i} F={b01 f} C={b01 c} n={n} md={hexOrDash md} d={hexOrDash d}"
  | .requestN s i n => s!"REQUEST_N sid={s} I={b01 i} n={n}"
  | .cancel s i => s!"CANCEL sid={s} I={b01 i}"
  | .payload s i f c n md d => s!"PAYLOAD sid={s} I={b01 i} F={b01 f} C={b01 c} N={b01 n} md={hexOrDash md} d={hexOrDash d}"
  | .error s i c d => s!"ERROR sid={s} I={b01 i} code={c} d={hexOrDash d}"
  | .metadataPush s i md => s!"METADATA_PUSH sid={s} I={b01 i} md={hexOrDash md}"
  | .resume s i ma mi tok sp cp => s!"RESUME sid={s} I={b01 i} ver={ma}.{mi} tok={hexOrDash tok} spos={sp} cpos={cp}"
  | .resumeOk s i p => s!"RESUME_OK sid={s} I={b01 i} pos={p}"

def dumpDecoded : Decoded → String
  | .frame f => dumpFrame f
  | .ignored => "IGNORED"
  | .invalid => "INVALID"
  | .outOfDomain => "OUT-OF-DOMAIN"

/-- `enc <frame>` → `<wf> <hex of encode> | <tcp writes, ';'-separated> | <dump of decode (encode)>` -/
def cmdEnc (args : List String) : String :=
  match parseFrame args with
  | some f =>
    let e := encode f
    let wf := if decide (WF f) then "wf" else "not-wf"
    s!"{wf} {hexOrDash e} | {";".intercalate ((tcpWrites f).map hexOrDash)} | {dumpDecoded (decode e)}"
  | none => "bad-op"

/-- `dec <hex>` → dump of `parse_or_ignore` -/
def cmdDec (args : List String) : String :=
  match args with
  | [h] => match ofHex h with
    | some b => dumpDecoded (decode b)
    | none => "bad-op"
  | _ => "bad-op"

/-- an optional bytes argument: `N` is Python's `None`, `-` the empty bytes -/
def kvOptHex (args : List String) (key : String) : Option (Option Bytes) :=
  (kv args key).bind fun v => if v == "N" then some none else (ofHex v).map some

open RSocketModel.Builders in
def parseCall (args : List String) : Option Call :=
  match args with
  | [] => none
  | t :: a =>
    let pl : Option Payload := do pure ⟨← kvOptHex a "md", ← kvOptHex a "d"⟩
    match t with
    | "payload" => do pure (.payload (← kvNat a "sid") (← pl) (← kvBool a "C") (← kvBool a "N"))
    | "request_n" => do pure (.requestN (← kvNat a "sid") (← kvNat a "n"))
    | "cancel" => do pure (.cancel (← kvNat a "sid"))
    | "request_channel" => do pure (.requestChannel (← kvNat a "sid") (← pl) (← kvNat a "n") (← kvBool a "C"))
    | "request_stream" => do pure (.requestStream (← kvNat a "sid") (← pl) (← kvNat a "n"))
    | "request_response" => do pure (.requestResponse (← kvNat a "sid") (← pl))
    | "fire_and_forget" => do pure (.fnf (← kvNat a "sid") (← pl))
    | "setup" => do
      let p : Option Payload ← if (← kvBool a "P") then (pl.map some) else some none
      pure (.setup p (← kvHex a "denc") (← kvHex a "mdenc") (← kvNat a "ka") (← kvNat a "life") (← kvBool a "L"))
    | "metadata_push" => do pure (.metadataPush (← kvOptHex a "md"))
    | "keepalive" => do pure (.keepalive (← kvOptHex a "d"))
    | _ => none

/-- `build <builder> <args>` → `<dump of the frame value> | <hex of its encoding> | <same|DIFF: the regenerated builder read back>` -/
def cmdBuild (args : List String) : String :=
  match parseCall args with
  | some c =>
    let f := RSocketModel.Builders.build c
    let g := match RSocketModel.Builders.interp (RSocketModel.Builders.genBuild c) with
      | some f' => if f' = f then "same" else "DIFF " ++ dumpFrame f'
      | none => "DIFF unreadable"
    s!"{dumpFrame f} | {hexOrDash (encode f)} | {g}"
  | none => "bad-op"

/-- `errconv sid=<n> kind=protocol|other code=<n> text=N|-|<hex>` → `<dump of the ERROR frame> | <hex> | <what the peer's
application is handed: runtime|protocol:<code>> <text hex>` -/
def cmdErrconv (args : List String) : String :=
  let e : Option RSocketModel.Errors.Exc := do
    let k ← kv args "kind"
    let t ← kvOptHex args "text"
    if k == "protocol" then pure (.protocol (← kvNat args "code") t)
    else if k == "other" then (t.map .other) else none
  match e, kvNat args "sid" with
  | some e, some sid =>
    let f := RSocketModel.Errors.toErrorFrame sid e
    let peer := match decode (encode f) with
      | .frame g => match RSocketModel.Errors.ofErrorFrame g with
        | some (.runtime t) => s!"runtime {hexOrDash t}"
        | some (.protocol c t) => s!"protocol:{c} {hexOrDash t}"
        | none => "not-an-error-frame"
      | _ => "undecodable"
    s!"{dumpFrame f} | {hexOrDash (encode f)} | {peer}"
  | _, _ => "bad-op"

end Driver
