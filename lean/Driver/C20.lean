import Driver.Common
import RSocketModel.RxAdapter
open RSocketModel RSocketModel.RxAdapter
namespace Driver

/-- `rxb <limit> <ev>...` with `n` = element, `N` = element flagged complete, `c`, `e`, `t` = trigger;
answers the total requested after every event, then the number observed and the terminal -/
def cmdRxb (args : List String) : String :=
  match args with
  | l :: evs =>
    match l.toNat? with
    | some limit =>
      let parse (t : String) (i : Nat) : Option (Ev Nat) :=
        if t == "n" then some (.next i false) else if t == "N" then some (.next i true) else if t == "c" then some .complete
        else if t == "e" then some .error else if t == "t" then some .trigger else none
      let rec go (s : RxAdapter.Sub Nat) (evs : List String) (i : Nat) (acc : List String) (legal : Bool) : Option (RxAdapter.Sub Nat × List String × Bool) :=
        match evs with
        | [] => some (s, acc.reverse, legal)
        | t :: ts =>
          match parse t i with
          | some e => let s' := step s e; go s' ts (i + 1) (toString s'.requested :: acc) (legal && legalEv s e)
          | none => none
      match go (Sub.init limit) evs 0 [] true with
      | some (s, reqs, legal) =>
        let term := match s.terminal with | some true => "c" | some false => "e" | none => "-"
        s!"{" ".intercalate reqs} | observed={s.observed.length} term={term} legal={b01 legal}"
      | none => "bad-op"
    | none => "bad-op"
  | _ => "bad-op"

end Driver
