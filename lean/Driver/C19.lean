import Driver.Common
import RSocketModel.Routing
open RSocketModel RSocketModel.Composite RSocketModel.Routing
namespace Driver

def parseTy (s : String) : Option ReqType :=
  match s with
  | "r" => some .response | "s" => some .stream | "c" => some .channel | "f" => some .fnf | "m" => some .metadataPush
  | _ => none

def parseParam (s : String) : Option Param :=
  match s.toList with
  | [n, a] => do
    let nm ← (if n == 'c' then some true else if n == 'x' then some false else none)
    let an ← (match a with | 'e' => some Annot.empty | 'p' => some .payload | 'm' => some .compositeMetadata | 'o' => some .other | _ => none)
    pure { named_composite_metadata := nm, annot := an }
  | _ => none

def parseParams (s : String) : Option (List Param) :=
  if s == "-" then some [] else (s.splitOn ",").mapM parseParam

def showArg : Arg → String | .composite => "CM" | .payload => "P" | .deserialized => "D"

def stdVerifier (_route : Bytes) (a : Item) : Bool :=
  match a with
  | .authBearer t => t == [0x67]
  | .authSimple u _ => u == [0x75]
  | _ => false

/-- `route ty=.. ver=none|std routes=<ty:routehex:hid:params|...> unknown=<ty:hid:params|...> blob=<hex>` -/
def cmdRoute (args : List String) : String :=
  let r : Option String := do
    let ty ← (kv args "ty").bind parseTy
    let ver ← kv args "ver"
    let routesS ← kv args "routes"
    let unkS ← kv args "unknown"
    let blob ← kvHex args "blob"
    let routes ← (if routesS == "-" then some [] else (routesS.splitOn "|").mapM fun e =>
      match e.splitOn ":" with
      | [t, rt, hid, ps] => do pure ((← parseTy t), (← ofHex rt), ({ id := (← hid.toNat?), params := (← parseParams ps) } : Handler))
      | _ => none)
    let unk ← (if unkS == "-" then some [] else (unkS.splitOn "|").mapM fun e =>
      match e.splitOn ":" with
      | [t, hid, ps] => do pure ((← parseTy t), ({ id := (← hid.toNat?), params := (← parseParams ps) } : Handler))
      | _ => none)
    let router : Router := {
      routes := fun t => (routes.filter (·.1 == t)).map fun x => (x.2.1, x.2.2),
      unknown := fun t => (unk.find? (·.1 == t)).map (·.2) }
    let items := match decode Gen.mimeTable Gen.authTable blob with
      | .ok l => some l
      | .fail => none
    let v := if ver == "std" then some stdVerifier else none
    match dispatch router v ty items with
    | .ran h a => pure s!"ran {h} {",".intercalate (a.map showArg)}"
    | .error => pure "error"
  r.getD "bad-op"

end Driver
