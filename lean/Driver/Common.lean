import RSocketModel.Basic
open RSocketModel
namespace Driver

def parseNatList (s : String) : Option (List Nat) :=
  if s == "-" then some [] else (s.splitOn ",").mapM String.toNat?

def showNatList (l : List Nat) : String :=
  if l.isEmpty then "-" else ",".intercalate (l.map toString)

/-- `key=value` lookup in a token list -/
def kv (args : List String) (key : String) : Option String :=
  args.findSome? fun t => if t.startsWith (key ++ "=") then some ((t.drop (key.length + 1)).toString) else none

def kvNat (args : List String) (key : String) : Option Nat := (kv args key).bind String.toNat?
def kvBool (args : List String) (key : String) : Option Bool :=
  (kv args key).bind fun v => if v == "1" then some true else if v == "0" then some false else none
def kvHex (args : List String) (key : String) : Option Bytes := (kv args key).bind ofHex

def b01 (b : Bool) : String := if b then "1" else "0"

end Driver
