import Driver.Common
import RSocketModel.Lease
open RSocketModel RSocketModel.Lease
namespace Driver

def parseLeaseEv (t : String) : Option Ev :=
  match t.splitOn "@" with
  | [a, tm] => do
    let time ← tm.toNat?
    if a.startsWith "R" then (a.drop 1).toNat?.map fun tag => .request tag time
    else if a.startsWith "L" then
      match (a.drop 1).toString.splitOn ":" with
      | [n, ttl] => do pure (.lease (← n.toNat?) (← ttl.toNat?) time)
      | _ => none
    else none
  | _ => none

/-- `lease <capacity> <t0> <ev>...` -/
def cmdLease (args : List String) : String :=
  match args with
  | cap :: t0 :: evs =>
    match cap.toNat?, t0.toNat?, evs.mapM parseLeaseEv with
    | some cap, some t0, some evs =>
      let s := run (init cap t0) evs
      let sent := s.sent.map fun p => s!"{p.1}@{p.2}"
      s!"sent={if sent.isEmpty then "-" else ",".intercalate sent} queue={showNatList s.queue} rejected={showNatList s.rejected}"
    | _, _, _ => "bad-op"
  | _ => "bad-op"

def cmdAnnounce (args : List String) : String :=
  match args with
  | [n, us] => match n.toNat?, us.toNat? with
    | some n, some us => let r := announce n us; s!"{r.1} {r.2}"
    | _, _ => "bad-op"
  | _ => "bad-op"

end Driver
