import Driver.Common
import RSocketModel.SendQueue
open RSocketModel RSocketModel.SendQueue
namespace Driver

def parseSrc (t : String) : Option (Src Nat) :=
  match t.splitOn ":" with
  | [sid, labels] => do
    let s ← sid.toNat?
    let ls ← parseNatList labels
    pure { sid := s, frags := ls }
  | _ => none

def parseSqEv (t : String) : Option (Ev Nat) :=
  if t == "s" then some .step
  else if t.startsWith "e" then (parseSrc (t.drop 1).toString).map .enq
  else if t.startsWith "p" then (parseSrc (t.drop 1).toString).map .enqFront
  else none

/-- `sq <event>...` → wire and remaining queue -/
def cmdSq (args : List String) : String :=
  match args.mapM parseSqEv with
  | some evs =>
    let s := run init evs
    let w := s.wire.map fun p => s!"{p.1}:{p.2}"
    let q := s.queue.map fun src => s!"{src.sid}:{showNatList src.frags}"
    s!"{" ".intercalate w} | {";".intercalate q}"
  | none => "bad-op"

end Driver
