import Driver.C13
import Driver.C04
import Driver.C03
import Driver.C05
import Driver.C02
import Driver.C18
import Driver.C19
import Driver.Engine
import Driver.Client
import Driver.C14
import Driver.C06
import Driver.C20
/-!
Line-protocol driver: one request per line on stdin, one answer per line on stdout.
Only model files are imported (no proofs, no Mathlib), so this links as a native executable.
-/
namespace Driver

def dispatch (line : String) : String :=
  match (line.trimAscii.toString.splitOn " ").filter (· ≠ "") with
  | [] => "bad-op"
  | cmd :: args =>
    match cmd with
    | "ping" => "pong"
    | "sid" => cmdSid args
    | "sweep" => cmdSweep args
    | "drain" => cmdDrain args
    | "msg" => cmdMsg args
    | "tcp" => cmdTcp args
    | "ws" => cmdWs args
    | "frag" => cmdFrag args
    | "sq" => cmdSq args
    | "enc" => cmdEnc args
    | "dec" => cmdDec args
    | "build" => cmdBuild args
    | "errconv" => cmdErrconv args
    | "comp" => cmdComp args
    | "cdec" => cmdCdec args
    | "menc" => cmdMenc args
    | "route" => cmdRoute args
    | "eng" => cmdEng args
    | "cli" => cmdCli args
    | "setup" => cmdSetup args
    | "ka" => cmdKa args
    | "lease" => cmdLease args
    | "announce" => cmdAnnounce args
    | "credit" => cmdCredit args
    | "collect" => cmdCollect args
    | "rxb" => cmdRxb args
    | _ => "bad-op"

partial def loop (h : IO.FS.Stream) (out : IO.FS.Stream) : IO Unit := do
  let line ← h.getLine
  if line.isEmpty then return ()
  out.putStrLn (dispatch line)
  loop h out

end Driver

def main : IO Unit := do
  let stdin ← IO.getStdin
  let stdout ← IO.getStdout
  Driver.loop stdin stdout
  stdout.flush
