import RSocketModel.Basic
import RSocketModel.StreamId
/-!
Line-protocol driver: one request per line on stdin, one answer per line on stdout.
Only model files are imported (no proofs, no Mathlib), so this links as a native executable.
-/
open RSocketModel

namespace Driver

def parseNatList (s : String) : Option (List Nat) :=
  if s == "-" then some [] else (s.splitOn ",").mapM String.toNat?

def showNatList (l : List Nat) : String :=
  if l.isEmpty then "-" else ",".intercalate (l.map toString)

/-! ### C13 -/
def parseSidOp (t : String) : Option StreamId.Op :=
  if t == "a" then some .allocate
  else if t == "o" then some .allocateOnly
  else if t.startsWith "r" then (t.drop 1).toNat?.map .register
  else if t.startsWith "f" then (t.drop 1).toNat?.map .finish
  else if t.startsWith "q" then (t.drop 1).toNat?.map .query
  else none

def showSidOut : StreamId.Out → String
  | .allocated id => s!"A{id}"
  | .allocationFailure => "X"
  | .registered => "R"
  | .registerRejected => "E"
  | .finished => "F"
  | .available b => if b then "Q1" else "Q0"

def cmdSid (args : List String) : String :=
  match args with
  | k :: cur :: act :: ops =>
    match k.toNat?, cur.toNat?, parseNatList act, ops.mapM parseSidOp with
    | some k, some cur, some act, some ops =>
      let s0 : StreamId.State := { k := k, cur := cur, active := act }
      let outs := (StreamId.run s0 ops).map (fun so => showSidOut so.2)
      let sf := StreamId.final s0 ops
      let actF := (sf.active.toArray.qsort (· < ·)).toList
      s!"{" ".intercalate outs} | cur={sf.cur} active={showNatList actF}"
    | _, _, _, _ => "bad-op"
  | _ => "bad-op"

def dispatch (line : String) : String :=
  match (line.trimAscii.toString.splitOn " ").filter (· ≠ "") with
  | [] => "bad-op"
  | cmd :: args =>
    match cmd with
    | "ping" => "pong"
    | "sid" => cmdSid args
    | _ => "bad-op"

partial def loop (h : IO.FS.Stream) (out : IO.FS.Stream) : IO Unit := do
  let line ← h.getLine
  if line.isEmpty then return ()
  out.putStrLn (dispatch line)
  loop h out

end Driver

def main : IO Unit := do
  let stdin ← IO.getStdin
  let stdout ← IO.getStdout
  Driver.loop stdin stdout
  stdout.flush
