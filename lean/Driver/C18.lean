import Driver.Common
import RSocketModel.Composite
open RSocketModel RSocketModel.Composite
namespace Driver

def parseHexList (s : String) : Option (List Bytes) :=
  if s == "" then some [] else (s.splitOn ",").mapM ofHex

def showHexList (l : List Bytes) : String := ",".intercalate (l.map hexOrDash)

def parseItem (t : String) : Option Item :=
  match t.splitOn ":" with
  | ["raw", m, c] => do pure (.raw (← ofHex m) (← ofHex c))
  | ["route", tags] => (parseHexList tags).map .routing
  | ["mime", m] => (ofHex m).map .dataMime
  | ["accept", ms] => (parseHexList ms).map .acceptMimes
  | ["simple", u, p] => do pure (.authSimple (← ofHex u) (← ofHex p))
  | ["bearer", tok] => (ofHex tok).map .authBearer
  | _ => none

def showItem : Item → String
  | .raw m c => s!"raw:{hexOrDash m}:{hexOrDash c}"
  | .routing tags => s!"route:{showHexList tags}"
  | .dataMime m => s!"mime:{hexOrDash m}"
  | .acceptMimes ms => s!"accept:{showHexList ms}"
  | .authSimple u p => s!"simple:{hexOrDash u}:{hexOrDash p}"
  | .authBearer tok => s!"bearer:{hexOrDash tok}"

def showDecoded : R (List Item) → String
  | .ok items => "ok " ++ " ".intercalate (items.map showItem)
  | .fail => "FAIL"

/-- `comp <item>...` → `<hex | ERR> | <decode of it>` -/
def cmdComp (args : List String) : String :=
  match args.mapM parseItem with
  | some items =>
    match encode Gen.mimeTable Gen.authTable items with
    | some e => s!"{hexOrDash e} | {showDecoded (decode Gen.mimeTable Gen.authTable e)}"
    | none => "ERR"
  | none => "bad-op"

def cmdCdec (args : List String) : String :=
  match args with
  | [h] => match ofHex h with
    | some b => showDecoded (decode Gen.mimeTable Gen.authTable b)
    | none => "bad-op"
  | _ => "bad-op"

def cmdMenc (args : List String) : String :=
  match args with
  | [h] => match ofHex h with
    | some b => match encodeMime Gen.mimeTable b with
      | some e => hexOrDash e
      | none => "ERR"
    | none => "bad-op"
  | _ => "bad-op"

end Driver
