import Driver.Common
import RSocketModel.Credit
import RSocketModel.Collector
open RSocketModel RSocketModel.Credit
namespace Driver

/-- `credit flagged=<0|1> failing=<0|1> count=<k> ev...` with events `r<n>` (request), `q` (let the
tasks run to quiescence and report), `x` (cancel) -/
def cmdCredit (args : List String) : String :=
  match kvBool args "flagged", kvBool args "failing", kvNat args "count" with
  | some fl, some fa, some k =>
    let evs := args.filter fun a => !(a.startsWith "flagged=" || a.startsWith "failing=" || a.startsWith "count=")
    let rec go (s : State Nat) (evs : List String) (acc : List String) (ncred : Nat) : List String :=
      match evs with
      | [] => acc.reverse
      | e :: es =>
        if e == "q" then
          let s' := quiesce s (2 * (k + ncred) + 6)
          let t := match s'.terminal with | some true => "c" | some false => "e" | none => "-"
          go s' es (s!"{s'.emitted.length}{t}" :: acc) ncred
        else if e == "x" then go (step s .cancel) es acc ncred
        else if e.startsWith "r" then
          match (e.drop 1).toNat? with
          | some n => go (step s (.request n)) es acc (ncred + 1)
          | none => ["bad-op"]
        else ["bad-op"]
    " ".intercalate (go (init (List.range k) fl fa) evs [] 0)
  | _, _, _ => "bad-op"

/-- `collect <L> <C|-> ev...` with events `n0` (element), `n1` (element flagged complete), `c`, `e`:
the collector's requests / cancel in order, then its final state -/
def cmdCollect (args : List String) : String :=
  match args with
  | l :: c :: evs =>
    match l.toNat?, (if c == "-" then some none else c.toNat?.map some) with
    | some L, some C =>
      let parsed : List (Option Collector.Ev) := evs.map fun e =>
        if e == "n0" then some (.next false) else if e == "n1" then some (.next true)
        else if e == "c" then some .complete else if e == "e" then some .error else none
      if parsed.any Option.isNone then "bad-op" else
      let r := Collector.run L C {} (parsed.filterMap id)
      let outs := r.2.map fun o => match o with | .request n => s!"r{n}" | .cancel => "x"
      let b := fun (x : Bool) => if x then "1" else "0"
      " ".intercalate outs ++ s!" | done={b r.1.done} failed={b r.1.failed} total={r.1.total}"
    | _, _ => "bad-op"
  | _ => "bad-op"

end Driver
