import Driver.Common
import RSocketModel.Credit
open RSocketModel RSocketModel.Credit
namespace Driver

/-- `credit flagged=<0|1> failing=<0|1> count=<k> ev...` with events `r<n>` (request), `q` (let the
tasks run to quiescence and report), `x` (cancel) -/
def cmdCredit (args : List String) : String :=
  match kvBool args "flagged", kvBool args "failing", kvNat args "count" with
  | some fl, some fa, some k =>
    let evs := args.filter fun a => !(a.startsWith "flagged=" || a.startsWith "failing=" || a.startsWith "count=")
    let rec go (s : State Nat) (evs : List String) (acc : List String) (ncred : Nat) : List String :=
      match evs with
      | [] => acc.reverse
      | e :: es =>
        if e == "q" then
          let s' := quiesce s (2 * (k + ncred) + 6)
          let t := match s'.terminal with | some true => "c" | some false => "e" | none => "-"
          go s' es (s!"{s'.emitted.length}{t}" :: acc) ncred
        else if e == "x" then go (step s .cancel) es acc ncred
        else if e.startsWith "r" then
          match (e.drop 1).toNat? with
          | some n => go (step s (.request n)) es acc (ncred + 1)
          | none => ["bad-op"]
        else ["bad-op"]
    " ".intercalate (go (init (List.range k) fl fa) evs [] 0)
  | _, _, _ => "bad-op"

end Driver
