import Driver.Common
import RSocketModel.StreamId
open RSocketModel
namespace Driver

def parseSidOp (t : String) : Option StreamId.Op :=
  if t == "a" then some .allocate
  else if t == "o" then some .allocateOnly
  else if t.startsWith "r" then (t.drop 1).toNat?.map .register
  else if t.startsWith "f" then (t.drop 1).toNat?.map .finish
  else if t.startsWith "q" then (t.drop 1).toNat?.map .query
  else none

def showSidOut : StreamId.Out → String
  | .allocated id => s!"A{id}"
  | .allocationFailure => "X"
  | .registered => "R"
  | .registerRejected => "E"
  | .finished => "F"
  | .available b => if b then "Q1" else "Q0"

def cmdSid (args : List String) : String :=
  match args with
  | k :: cur :: act :: ops =>
    match k.toNat?, cur.toNat?, parseNatList act, ops.mapM parseSidOp with
    | some k, some cur, some act, some ops =>
      let s0 : StreamId.State := { k := k, cur := cur, active := act }
      let outs := (StreamId.run s0 ops).map (fun so => showSidOut so.2)
      let sf := StreamId.final s0 ops
      let actF := (sf.active.toArray.qsort (· < ·)).toList
      s!"{" ".intercalate outs} | cur={sf.cur} active={showNatList actF}"
    | _, _, _, _ => "bad-op"
  | _ => "bad-op"

/-- `sweep k cur <table in walking order> <ids whose owner retries>` : `stop_all_streams()` -/
def cmdSweep (args : List String) : String :=
  match args with
  | [k, cur, act, retry] =>
    match k.toNat?, cur.toNat?, parseNatList act, parseNatList retry with
    | some k, some cur, some act, some retry =>
      let r := StreamId.sweep (fun i => retry.contains i) { k := k, cur := cur, active := act }
      let actF := (r.1.active.toArray.qsort (· < ·)).toList
      s!"new={showNatList r.2} | cur={r.1.cur} active={showNatList actF}"
    | _, _, _, _ => "bad-op"
  | _ => "bad-op"

end Driver
