import Driver.Common
import RSocketModel.Fragment
open RSocketModel RSocketModel.Fragment
namespace Driver

def showFFrame (f : FFrame Nat) (lp : Bool) : String :=
  s!"{f.ty}:{b01 f.follows}{b01 f.complete}{b01 f.next}:n{f.n}:{f.md.length}:{f.d.length}:w{wireSize f lp}"

def showAppend : AppendResult Nat → String
  | .pending => "P"
  | .differentType => "D"
  | .frame f => s!"F{f.ty}:{b01 f.follows}{b01 f.complete}{b01 f.next}:n{f.n}:{f.md.length}:{f.d.length}"

/-- `frag ty=<id> F=<size> lp=<0|1> sid=<id> n=<n> C=<0|1> md=<len> d=<len>` -/
def cmdFrag (args : List String) : String :=
  match kvNat args "ty", kvNat args "F", kvBool args "lp", kvNat args "sid", kvNat args "n",
        kvBool args "C", kvNat args "md", kvNat args "d" with
  | some ty, some F, some lp, some sid, some n, some c, some mdl, some dl =>
    let b : Base Nat := { ty := ty, sid := sid, n := n, complete := c,
                          md := List.range mdl, d := (List.range dl).map (· + 100000) }
    let frames := toFrames b F lp
    let r := appendAll ([] : Cache Nat) frames
    let ok := match r.2.getLast? with
      | some (.frame f) => b01 (f.md == b.md && f.d == b.d)
      | _ => "0"
    s!"{" ".intercalate (frames.map (showFFrame · lp))} | {" ".intercalate (r.2.map showAppend)} | content={ok} cache={r.1.length}"
  | _, _, _, _, _, _, _, _ => "bad-op"

end Driver
