import RSocketModel.Basic
import RSocketModel.StreamId
import RSocketModel.Proofs.StreamId
import RSocketModel.Props.C13
